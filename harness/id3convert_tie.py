"""id3convert_tie.py — correspondence of lean/MutagenModel/Model/Id3v1.lean (MakeID3v1 / ParseID3v1, TCON.genres) and
lean/MutagenModel/Model/Id3Convert.lean (update_to_v23 / update_to_v24) with mutagen, on generated tags; called from
harness/props/c13.py."""
from vcheck import hx, parse_fields
from guards import timed


def enc_str(s):
    return ",".join(str(ord(c)) for c in s) if s else "~"


def enc_list(l):
    if l is None:
        return "-"
    if not l:
        return "e"
    return ";".join(enc_str(s) for s in l)


def dec_str(v):
    return "" if v in ("~", "") else "".join(chr(int(x)) for x in v.split(","))


ERR = {"IndexError": "index", "ValueError": "value", "UnicodeEncodeError": "unicode", "KeyError": "key", "TypeError": "type",
       "AttributeError": "attribute"}


def classify(exc):
    from mutagen import MutagenError
    if isinstance(exc, MutagenError):
        return "err mutagen"
    return "err " + ERR.get(type(exc).__name__, type(exc).__name__)


TEXTS = ["", "x", "Title", " padded ", "\tTab\n", "Ünï", "日本語", "a" * 30, "b" * 31, "c" * 45, "nul\x00inside", "é" * 29 + "€€", "\xa0nbsp",
         "  ", "Q?"]
TRCKS = ["4", "4/15", " 7 ", "07", "abc", "300", "255", "256", "-1", "+3", "1_0", "_1", "", "/5", "3/", "32", " 32/9", "0", "1e3", " 12 ",
         "1__0", "12_"]
TCONS = ["17", "(17)", "(17)(RX)Foo", "((x)", "Rock", "CR", "RX", "255", "191", "192", "999", "(12x", "Pop\nx", "(CR)", "(RX)(CR)", "(300)",
         "(1)Classic Rock", "(1)17", "(4)((lit)", "", "0", "007", "\nabc", "(2)\nzz", "Blues", "(0)Blues", "((", "()", "(RX"]
DATES = ["2004", "2004-01-02", "2004-01-02 03:04", "20", "", "1999-12", "0001", "12345"]


def gen_src(rng):
    """-> (ID3 tags object, model Src fields dict)"""
    from mutagen import id3 as I
    t = I.ID3()
    f = {}
    def texts(pool, many=True):
        n = rng.choice([0, 1, 1, 1, 2]) if many else 1
        return [rng.choice(pool) for _ in range(n)]
    for fid, key in (("TIT2", "tit2"), ("TPE1", "tpe1"), ("TALB", "talb")):
        if rng.random() < 0.7:
            v = texts(TEXTS)
            t.add(getattr(I, fid)(encoding=3, text=v)); f[key] = v
    ncomm = rng.choice([0, 0, 1, 1, 2, 3])
    for _ in range(ncomm):
        desc = rng.choice(["", "", "ID3v1 Comment", "zz", "A"])
        lang = rng.choice(["eng", "deu", "XXX"])
        v = texts(TEXTS)
        t.add(I.COMM(encoding=3, lang=lang, desc=desc, text=v))
    if rng.random() < 0.7:
        v = texts(TRCKS); t.add(I.TRCK(encoding=3, text=v)); f["trck"] = v
    if rng.random() < 0.7:
        v = texts(TCONS); t.add(I.TCON(encoding=3, text=v)); f["tcon"] = v
    if rng.random() < 0.5:
        v = texts(DATES); t.add(I.TDRC(encoding=3, text=v))
    if rng.random() < 0.4:
        v = texts(DATES + ["２００４", "19é9"]); t.add(I.TYER(encoding=3, text=v))
    # the comment frame MakeID3v1 is documented to take: id3["COMM"], else the first key in sorted order starting with "COMM::"
    keys = sorted(k for k in t.keys() if k.startswith("COMM::"))
    if keys:
        f["comm"] = list(t[keys[0]].text)
    if "TDRC" in t:
        f["tdrc"] = ",".join(s.text for s in t["TDRC"].text)
    if "TYER" in t:
        f["tyer"] = "\x00".join(t["TYER"].text)
    return t, f


def src_line(f):
    return "id3v1 op=make tit2=%s tpe1=%s talb=%s comm=%s trck=%s tcon=%s tdrc=%s tyer=%s" % (
        enc_list(f.get("tit2")), enc_list(f.get("tpe1")), enc_list(f.get("talb")), enc_list(f.get("comm")), enc_list(f.get("trck")),
        enc_list(f.get("tcon")), "-" if "tdrc" not in f else enc_str(f["tdrc"]), "-" if "tyer" not in f else enc_str(f["tyer"]))


def spec_read_v1(b):
    """independent reader of the ID3v1.1 layout: fields up to the first NUL"""
    def fld(x):
        return x.split(b"\0")[0]
    return {"title": fld(b[3:33]), "artist": fld(b[33:63]), "album": fld(b[63:93]), "year": fld(b[93:97]), "comment": fld(b[97:125]),
            "zero": b[125], "track": b[126], "genre": b[127]}


def run_v1(ctx, reqs):
    from mutagen.id3._id3v1 import MakeID3v1, ParseID3v1
    from mutagen import id3 as I
    rng = ctx.rng
    blocks = []
    for i in range(ctx.budget(400, 6000)):
        tags, f = gen_src(rng)
        k, r = timed(lambda: MakeID3v1(tags), 10)
        case = {"op": "MakeID3v1", "frames": {kk: vv for kk, vv in f.items()}}
        if k == "hang":
            ctx.violation("id3v1:make:hang", "did not finish", case); continue
        impl = ("ok v=%s" % hx(r)) if k == "ok" else classify(r)
        ctx.case(key=("id3v1-make", i), nontrivial=(k == "ok"), modelled=True, sample=case if i == 3 else None)
        ctx.hist["id3v1:make:" + impl.split(" v=")[0]] += 1
        reqs.append((src_line(f), impl, case, "id3v1 make"))
        if k != "ok":
            # C13: the ID3v1 block is written alongside every save with v1=2 / an existing block: an exception here aborts the save
            if not isinstance(r, Exception) or type(r).__name__ not in ("IndexError", "UnicodeEncodeError"):
                ctx.violation("id3v1:make:raises-%s" % type(r).__name__, "MakeID3v1 raised %r" % (r,), case)
            else:
                ctx.hist["id3v1:make:raises-" + type(r).__name__] += 1
            continue
        # the property on the real output: 128 bytes; Latin-1 truncations of the v2 values in the fixed-width fields
        if len(r) != 128 or r[:3] != b"TAG":
            ctx.violation("id3v1:make:layout", "not a 128-byte TAG block", case); continue
        s = spec_read_v1(r)
        for fid, key, w in (("tit2", "title", 30), ("tpe1", "artist", 30), ("talb", "album", 30)):
            want = (f[fid][0].encode("latin1", "replace")[:w] if fid in f else b"").split(b"\0")[0]
            if s[key] != want:
                ctx.violation("id3v1:make:field-" + key, "%s field is %r, expected %r" % (key, s[key], want), case)
        wantc = (f["comm"][0].encode("latin1", "replace")[:28] if f.get("comm") else b"").split(b"\0")[0]
        if s["comment"] != wantc or s["zero"] != 0:
            ctx.violation("id3v1:make:field-comment", "comment field is %r, expected %r" % (s["comment"], wantc), case)
        blocks.append(bytes(r))
    # ParseID3v1: the blocks just made, legacy short-year blocks, space padding, junk in front, track 32, damaged
    for i in range(ctx.budget(400, 6000)):
        b = bytearray(rng.choice(blocks)) if blocks and rng.random() < 0.7 else bytearray(b"TAG" + bytes(rng.randrange(256) for _ in range(125)))
        m = rng.choice(["plain", "plain", "short-year", "spaces", "junk", "track32", "cut", "notag", "two-tags", "long"])
        if m == "short-year":
            n = rng.choice([0, 1, 2, 3]); b = b[:93] + b[93:97][:n] + b[97:]
        elif m == "spaces":
            b[3:33] = b"Title".ljust(30, b" "); b[97:127] = b"cmt".ljust(30, b" ")
        elif m == "junk":
            b = bytearray(rng.choice([b"xx", b"TA", b"TAGG"])) + b
        elif m == "track32":
            b[126] = 32; b[125] = rng.choice([0, 32, 65])
        elif m == "cut":
            b = b[:rng.choice([0, 2, 3, 50, 123, 124])]
        elif m == "notag":
            b[0] = 0x55
        elif m == "two-tags":
            b[40:43] = b"TAG"
        elif m == "long":
            b = b + b"\0" * rng.choice([1, 5])
        b = bytes(b)
        v2 = rng.choice([3, 4, 4, 2])
        k, r = timed(lambda: ParseID3v1(b, v2), 10)
        case = {"op": "ParseID3v1", "data": hx(b), "v2_version": v2, "mutation": m}
        if k == "hang":
            ctx.violation("id3v1:parse:hang", "did not finish", case); continue
        if k != "ok":
            impl = classify(r)
            if not (v2 == 2 and isinstance(r, ValueError)):
                ctx.violation("id3v1:parse:raises-%s" % type(r).__name__, "ParseID3v1 raised %r" % (r,), case)
        elif r is None:
            impl = "ok none=1"
        else:
            def txt(key):
                fr = r.get(key)
                return "" if fr is None else fr.text[0]
            ykey = "TYER" if v2 == 3 else "TDRC"
            year = "" if ykey not in r else (r[ykey].text[0] if v2 == 3 else r[ykey].text[0].text)
            comm = [fr for kk, fr in r.items() if kk.startswith("COMM")]
            impl = "ok title=%s artist=%s album=%s year=%s comment=%s track=%s genre=%s" % (
                enc_str(txt("TIT2")), enc_str(txt("TPE1")), enc_str(txt("TALB")), enc_str(year), enc_str(comm[0].text[0] if comm else ""),
                r["TRCK"].text[0] if "TRCK" in r else "-", r["TCON"].text[0] if "TCON" in r else "-")
        ctx.case(key=("id3v1-parse", i), nontrivial=(k == "ok" and r is not None), modelled=True)
        ctx.hist["id3v1:parse:" + m + ":" + impl.split(" ")[0] + (":none" if impl == "ok none=1" else "")] += 1
        reqs.append(("id3v1 op=parse v2=%d data=%s" % (v2, hx(b)), impl, case, "id3v1 parse" if v2 == 3 else "id3v1 parse (TDRC)"))


# ---------------------------------------------------------------------------------------------------------------------
# update_to_v23 / update_to_v24

LEVEL = ["|", "!", "^"]


def ser_stamp(st):
    return ",".join("n" if getattr(st, a) is None else str(getattr(st, a)) for a in ("year", "month", "day", "hour", "minute", "second"))


def ser_tag(tags, depth=0):
    """the tag dictionary in the driver's notation, frames sorted by HashKey"""
    from mutagen.id3 import _frames as FR
    out = []
    for key in sorted(tags.keys()):
        f = tags[key]
        fid = type(f).__name__
        if isinstance(f, (FR.CHAP, FR.CTOC)):
            out.append((key, "C:%s:%s:%s" % (fid, enc_str(key), ser_tag(f.sub_frames, depth + 1))))
        elif isinstance(f, FR.APIC):
            out.append((key, "A:%d:%s:%d:%s:%s" % (int(f.encoding), enc_str(f.mime), int(f.type), enc_str(f.desc), hx(f.data))))
        elif isinstance(f, FR.TimeStampTextFrame):
            out.append((key, "S:%s:%d:%s" % (fid, int(f.encoding), ";".join(ser_stamp(x) for x in f.text) if f.text else "e")))
        elif isinstance(f, FR.PairedTextFrame):
            out.append((key, "P:%s:%d:%s" % (fid, int(f.encoding), ";".join("%s/%s" % (enc_str(a), enc_str(b)) for a, b in f.people) if f.people else "e")))
        elif isinstance(f, FR.TextFrame) and key == fid:
            out.append((key, "T:%s:%d:%s" % (fid, int(f.encoding), enc_list(list(f.text)) if f.text else "e")))
        else:
            out.append((key, "O:%s:%s" % (fid, enc_str(key))))
    return LEVEL[depth].join(x for _, x in out) if out else "-"


def gen_tag(rng, depth=0):
    from mutagen import id3 as I
    t = I.ID3() if depth == 0 else I.ID3Tags()
    enc = lambda: rng.choice([0, 1, 3])
    def maybe(p, mk):
        if rng.random() < p:
            try:
                t.add(mk())
            except Exception:
                pass
    maybe(0.5, lambda: I.TCON(encoding=enc(), text=[rng.choice(TCONS) for _ in range(rng.choice([1, 1, 2]))]))
    maybe(0.4, lambda: I.TYER(encoding=enc(), text=[rng.choice(["2004", "2004-01-02", "200", "abcd", "20045", "", "1999"]) for _ in range(rng.choice([1, 1, 2]))]))
    maybe(0.4, lambda: I.TDAT(encoding=enc(), text=[rng.choice(["0201", "3112", "021", "ab12", ""]) for _ in range(rng.choice([1, 1, 2]))]))
    maybe(0.3, lambda: I.TIME(encoding=enc(), text=[rng.choice(["0304", "0000", "2359", "034", ""]) for _ in range(rng.choice([1, 1, 2]))]))
    maybe(0.3, lambda: I.TORY(encoding=enc(), text=[rng.choice(["1984", "84", "1984-05", "x", "  1984 ", "1984/5/6 7:8:9"]) for _ in range(rng.choice([1, 1, 2]))]))
    maybe(0.4, lambda: I.TDRC(encoding=enc(), text=[rng.choice(["2020", "2020-05", "2020-05-06", "2020-05-06 12", "2020-05-06 12:00", "2020-05-06 00:07:08",
                                                                     "0000-01-02", "2020-00-06", "", "12345", "20", "2020-13-40 25:61"]) for _ in range(rng.choice([0, 1, 1, 2]))]))
    maybe(0.3, lambda: I.TDOR(encoding=enc(), text=[rng.choice(["1970", "1970-01-01", "", "0", "70"]) for _ in range(rng.choice([0, 1, 1, 2]))]))
    people = lambda: [[rng.choice(["producer", "guitar", ""]), rng.choice(["Ann", "Bob", "Ünï"])] for _ in range(rng.choice([0, 1, 2]))]
    maybe(0.3, lambda: I.TIPL(encoding=enc(), people=people()))
    maybe(0.3, lambda: I.TMCL(encoding=enc(), people=people()))
    maybe(0.25, lambda: I.IPLS(encoding=enc(), people=people()))
    for fid in ("TSOP", "TSOA", "TSOT", "TSST", "TMOO", "TPRO", "TDEN", "TDRL", "TDTG", "TRDA", "TSIZ", "TIT2", "TPE1"):
        maybe(0.15, lambda fid=fid: getattr(I, fid)(encoding=enc(), text=["2001" if fid in ("TDEN", "TDRL", "TDTG") else "v"]))
    maybe(0.3, lambda: I.RVA2(desc=rng.choice(["", "album", "track"]), channel=1, gain=1.0, peak=0.5))
    maybe(0.2, lambda: I.EQU2(method=0, desc=rng.choice(["", "x"]), adjustments=[(100, 1.0)]))
    maybe(0.2, lambda: I.SIGN(group=1, sig=b"ab"))
    maybe(0.2, lambda: I.SEEK(offset=5))
    maybe(0.2, lambda: I.ASPI(S=0, L=0, N=1, b=8, Fi=[1]))
    maybe(0.2, lambda: I.RVAD(adjustments=[1, 2]))
    maybe(0.2, lambda: I.TXXX(encoding=enc(), desc="d", text=["v"]))
    for desc in rng.sample(["", "cover", "b"], rng.choice([0, 1, 2])):
        maybe(0.8, lambda desc=desc: I.APIC(encoding=enc(), mime=rng.choice(["PNG", "JPG", "image/png", "-->", ""]), type=3, desc=desc, data=b"\x01\x02"))
    if depth < 2:
        for el in rng.sample(["c1", "c2"], rng.choice([0, 0, 1, 2])):
            sub = gen_tag(rng, depth + 1)
            maybe(1.0, lambda el=el, sub=sub: I.CHAP(element_id=el, start_time=0, end_time=1, start_offset=0, end_offset=0, sub_frames=list(sub.values())))
        if rng.random() < 0.25:
            sub = gen_tag(rng, depth + 1)
            maybe(1.0, lambda sub=sub: I.CTOC(element_id="toc", flags=3, child_element_ids=["c1"], sub_frames=list(sub.values())))
    return t


def v23_ids():
    """the frame ids defined by ID3v2.3 (id3v2.3.0 section 4): what a v2.3 tag may contain"""
    return set("AENC APIC COMM COMR ENCR EQUA ETCO GEOB GRID IPLS LINK MCDI MLLT OWNE PRIV PCNT POPM POSS RBUF RVAD RVRB SYLT SYTC "
               "TALB TBPM TCOM TCON TCOP TDAT TDLY TENC TEXT TFLT TIME TIT1 TIT2 TIT3 TKEY TLAN TLEN TMED TOAL TOFN TOLY TOPE TORY TOWN "
               "TPE1 TPE2 TPE3 TPE4 TPOS TPUB TRCK TRDA TRSN TRSO TSIZ TSRC TSSE TYER TXXX UFID USER USLT WCOM WCOP WOAF WOAR WOAS "
               "WORS WPAY WPUB WXXX".split())


def all_ids(tags):
    from mutagen.id3 import _frames as FR
    out = []
    for f in tags.values():
        out.append(type(f).__name__)
        if isinstance(f, (FR.CHAP, FR.CTOC)):
            out.extend(all_ids(f.sub_frames))
    return out


def run_convert(ctx, reqs):
    rng = ctx.rng
    for i in range(ctx.budget(300, 5000)):
        tags = gen_tag(rng)
        before = ser_tag(tags)
        op = rng.choice(["to23", "to24"])
        k, r = timed(lambda: tags.update_to_v23() if op == "to23" else tags.update_to_v24(), 10)
        case = {"op": "update_" + op, "tag": before if len(before) < 1500 else before[:1500] + "..."}
        if k == "hang":
            ctx.violation("id3convert:%s:hang" % op, "did not finish", case); continue
        impl = ("ok v=%s" % ser_tag(tags)) if k == "ok" else classify(r)
        ctx.case(key=("id3convert", op, i), nontrivial=(k == "ok" and ser_tag(tags) != before), modelled=True, sample=case if i == 2 else None)
        ctx.hist["id3convert:%s:%s" % (op, impl.split(" v=")[0])] += 1
        reqs.append(("id3conv op=%s tag=%s" % (op, before), impl, case, "update_" + op))
        if k != "ok":
            ctx.violation("id3convert:%s:raises-%s" % (op, type(r).__name__), "%r" % (r,), case); continue
        # observations beyond what C13 states (counted, not violations): v2.4-only frames whose HashKey carries a description
        # (RVA2:<desc>, EQU2:<desc>, SIGN:<…>) are not removed by update_to_v23 - it deletes by dictionary key - and are written
        # into the v2.3 tag, where they reload as the same frames (Lean witness v23_rva2_survives); and neither conversion is
        # idempotent on TCON values like "(1)17" (update_not_idempotent_tcon)
        if op == "to23":
            for x in sorted(set(x for x in all_ids(tags) if x not in v23_ids() and x not in ("CHAP", "CTOC"))):
                ctx.hist["id3convert:v24-frame-left:" + x] += 1
            again = ser_tag(tags); tags.update_to_v23()
            if ser_tag(tags) != again:
                ctx.hist["id3convert:to23:not-idempotent"] += 1
        else:
            again = ser_tag(tags); tags.update_to_v24()
            if ser_tag(tags) != again:
                ctx.hist["id3convert:to24:not-idempotent"] += 1

def repro_make_id3v1():
    """the two exceptions of MakeID3v1 that escape ID3.save (after the ID3v2 tag has been written): -> list of (what, exception name)"""
    import io
    from mutagen import id3 as I
    out = []
    for what, mk in (("TIT2 with an empty text list, v1=2", lambda t: t.add(I.TIT2(encoding=3, text=[]))),
                     ("non-ASCII TYER without TDRC, v1=2, v2_version=3", lambda t: t.add(I.TYER(encoding=1, text=["２００４"])))):
        t = I.ID3(); mk(t)
        f = io.BytesIO(b"\xff\xfb\x90\x00" + b"\x55" * 300)
        try:
            t.save(f, v1=2, v2_version=3); r = None
        except Exception as e:
            r = type(e).__name__
        out.append((what, r, f.getvalue()[:3] == b"ID3"))
    return out


# ---------------------------------------------------------------------------------------------------------------------
# ID3.load: the ID3v1 merge and `translate` (Model/Id3Load.lean, driver `id3conv op=load|loadv1`)

def gen_v1_block(rng, tags):
    """an ID3v1 block: the one MakeID3v1 writes for these tags, one for other values, a legacy short-year one, or an empty one"""
    from mutagen import id3 as I
    from mutagen.id3._id3v1 import MakeID3v1
    kind = rng.choice(["same", "same", "other", "other", "prefix", "legacy", "empty", "spaces"])
    if kind == "same":
        try:
            return kind, bytes(MakeID3v1(tags))
        except Exception:
            kind = "other"
    def fld(s, n):
        return s.encode("latin1", "replace")[:n].ljust(n, b"\0")
    title, artist, album = rng.choice(["", "T1", "Other title"]), rng.choice(["", "Art"]), rng.choice(["", "Alb"])
    year = rng.choice(["", "1999", "20", "abcd"])
    comment = rng.choice(["", "a comment", "Comment one", "Comm", " lead"])
    track = rng.choice([0, 1, 32, 200]); genre = rng.choice([255, 17, 0, 200])
    if kind == "prefix":
        comms = [f for k, f in tags.items() if k.startswith("COMM::") and f.text]
        if comms:
            comment = comms[0].text[0][:rng.choice([3, 28])]
    if kind == "empty":
        title = artist = album = year = comment = ""; track = 0; genre = 255
    b = b"TAG" + fld(title, 30) + fld(artist, 30) + fld(album, 30) + fld(year, 4) + fld(comment, 28) + b"\0" + bytes([track, genre])
    if kind == "spaces":
        b = b"TAG" + title.encode("latin1").ljust(30, b" ") + fld(artist, 30) + fld(album, 30) + fld(year, 4) + comment.encode("latin1").ljust(30, b" ")[:29] + bytes([32, genre])
    if kind == "legacy":
        b = b[:93] + b[93:97][:rng.choice([0, 1, 2, 3])] + b[97:]
    return kind, b


def ser_comms(tags):
    cs = [f for k, f in sorted(tags.items()) if type(f).__name__ == "COMM"]
    if not cs:
        return "e"
    return ";".join("%s/%s" % (enc_str(f.desc), enc_str(f.text[0]) if f.text else "-") for f in cs)


def run_load(ctx, reqs):
    import io
    from mutagen import id3 as I
    rng = ctx.rng
    audio = b"\xff\xfb\x90\x00" + b"\x55" * 300
    for i in range(ctx.budget(300, 5000)):
        t = I.ID3()
        def maybe(p, mk):
            if rng.random() < p:
                try:
                    t.add(mk())
                except Exception:
                    pass
        maybe(0.6, lambda: I.TIT2(encoding=3, text=[rng.choice(["Title", "T1", "Ünï", "x" * 40])]))
        maybe(0.5, lambda: I.TPE1(encoding=3, text=[rng.choice(["Art", "Artist"])]))
        maybe(0.4, lambda: I.TALB(encoding=3, text=["Alb"]))
        maybe(0.5, lambda: I.TDRC(encoding=3, text=[rng.choice(["2004", "2004-01-02", "1999"])]))
        maybe(0.4, lambda: I.TRCK(encoding=3, text=[rng.choice(["4", "4/15", "abc"])]))
        maybe(0.4, lambda: I.TCON(encoding=3, text=[rng.choice(["17", "(17)", "Rock", "(1)17"])]))
        for desc, lang in rng.sample([("", "eng"), ("", "deu"), ("d", "eng"), ("ID3v1 Comment", "eng"), ("ID3v1 Comment", "XXX")], rng.choice([0, 1, 1, 2])):
            maybe(1.0, lambda desc=desc, lang=lang: I.COMM(encoding=3, lang=lang, desc=desc, text=[rng.choice(["a comment", "Comment one and more text beyond 28", " lead", "Comm"])]))
        maybe(0.2, lambda: I.TSOP(encoding=3, text=["s"]))
        maybe(0.2, lambda: I.RVA2(desc="album", channel=1, gain=1.0, peak=0.5))
        saved_ver = rng.choice([4, 4, 3])
        has_v2 = rng.random() < 0.8
        kind, block = gen_v1_block(rng, t)
        with_block = rng.random() < 0.85
        f = io.BytesIO(audio)
        if has_v2 and len(t):
            t2 = I.ID3()
            for fr in t.values():
                t2.add(fr)
            if saved_ver == 3:
                t2.update_to_v23()
            t2.save(f, v1=0, v2_version=saved_ver)
        data = f.getvalue() + (block if with_block else b"")
        tr = rng.choice([0, 4, 4, 3])
        kw = dict(translate=bool(tr))
        if tr:
            kw["v2_version"] = tr
        case = {"op": "ID3.load", "v2": has_v2 and len(t) > 0, "saved_as": saved_ver, "v1_block": kind if with_block else None, "translate": tr,
                "data": hx(data) if len(data) < 1400 else "len=%d" % len(data)}
        k, r = timed(lambda: I.ID3(io.BytesIO(data), **kw), 10)
        if k == "hang":
            ctx.violation("id3load:hang", "did not finish", case); continue
        ka, a = timed(lambda: I.ID3(io.BytesIO(data), load_v1=False, translate=False), 10)
        if ka == "ok":
            # a header was found: `a` is what _read made of the body
            if k != "ok":
                ctx.violation("id3load:raises-%s" % type(r).__name__, "%r" % (r,), case); continue
            line = "id3conv op=load tag=%s comms=%s vmaj=%d block=%s translate=%d" % (
                ser_tag(a), ser_comms(a), a.version[1], hx(block) if with_block else "-", tr)
            impl = "ok v=%s" % ser_tag(r)
            what = "ID3.load: v1 merge + translate"
            ctx.hist["id3load:v2+%s" % (kind if with_block else "nov1")] += 1
            # the property on the real outcome: every key of the v2-only load that translate keeps is there; what was added comes from the block
            added = sorted(set(r.keys()) - set(I.ID3(io.BytesIO(data), load_v1=False, **kw).keys()))
            for key in added:
                ctx.hist["id3load:added:" + key.split(":")[0]] += 1
                if key.split(":")[0] not in ("TIT2", "TPE1", "TALB", "TDRC", "TYER", "COMM", "TRCK", "TCON", "TDAT", "TIME"):
                    ctx.violation("id3load:unexpected-frame-from-v1:" + key, "a frame that ID3v1 cannot carry was added by the v1 merge", case)
        else:
            # no header: the v1 frames alone, or ID3NoHeaderError
            if k != "ok":
                impl = "ok v=-" if not with_block else classify(r)
                if with_block and kind != "empty":
                    pass
                reqs_line = None
            if with_block:
                line = "id3conv op=loadv1 block=%s v2=%d translate=%d" % (hx(block), tr if tr else 4, 1 if tr else 0)
                impl = ("ok v=%s" % ser_tag(r)) if k == "ok" else "ok v=-"
                what = "ID3.load: v1 only"
                ctx.hist["id3load:v1only:%s:%s" % (kind, k)] += 1
            else:
                continue
        ctx.case(key=("id3load", i), nontrivial=with_block, modelled=True, sample=case if i == 4 else None)
        reqs.append((line, impl, case, what))


def run(ctx):
    reqs = []
    run_v1(ctx, reqs)
    run_convert(ctx, reqs)
    run_load(ctx, reqs)
    if ctx.model_ok() and reqs:
        answers = ctx.driver.ask([r[0] for r in reqs])
        for (line, impl, case, what), ans in zip(reqs, answers):
            ctx.traces_validated += 1
            if what == "id3v1 parse (TDRC)" and ans.startswith("ok title="):
                # the year goes into a TDRC: the frame keeps the ID3TimeStamp normalisation of the text, not the text
                from mutagen.id3 import ID3TimeStamp
                st, mf = parse_fields(ans)
                mf["year"] = enc_str(ID3TimeStamp(dec_str(mf["year"])).text) if mf["year"] != "~" else "~"
                ans = "ok " + " ".join("%s=%s" % (k, mf[k]) for k in ("title", "artist", "album", "year", "comment", "track", "genre"))
            if ans != impl:
                ctx.disagree(what, case, model=ans[:300], impl=impl[:300])
    return len(reqs)
