"""info_tie_b.py — correspondence of the Lean stream-info models of the second C05 batch
(lean/MutagenModel/Model/Info/{Wave,Aiff,Dsf,Dsdiff,Ogg*,Asf,Mp4}.lean, specification side Spec/Info/*.lean,
theorems Props/C05_<Fmt>.lean) with the real info classes of mutagen.

For every kind:
  * every case of gen/headers_more.cases() of that kind: the Lean `build` of the same field values gives the same
    bytes as headers_more's builder; where the Lean `OK` and the `_partial` hypothesis hold, the real class reports
    exactly the Lean `expected` (the theorem, instantiated);
  * own field lattices (extremes of every field, table rows, random values), built by the Lean `build`;
  * damaged inputs (every short truncation, bad magics, wrong sizes, random byte changes);
  on all of them: the real class in-process on io.BytesIO against `infob kind=… data=…` of the driver — same
  attributes (durations: the model prints the expression tree mutagen evaluates, Python evaluates it, the floats
  must be equal) or the same exception class.

Stand-alone:  cd /tmp/c05b-verif && /venv/bin/python harness/info_tie_b.py [quick|thorough] [KIND …]"""
import importlib
import io
import os
import struct
import sys

from vcheck import hx
from guards import timed

ERRNAMES = {"ValueError": "value", "IndexError": "index", "error": "struct", "KeyError": "key",
            "AssertionError": "assertion", "OverflowError": "overflow", "TypeError": "type", "MemoryError": "memory",
            "ZeroDivisionError": "zerodiv", "EOFError": "eof", "UnicodeDecodeError": "unicode",
            "AttributeError": "attribute", "NotImplementedError": "notimplemented"}


def classify(exc):
    from mutagen import MutagenError
    if isinstance(exc, MutagenError):
        return "err:mutagen"
    return "err:" + ERRNAMES.get(type(exc).__name__, type(exc).__name__)


def pyval(expr):
    """value of a rendered LExpr (ints, float(), / * - max)"""
    return eval(expr, {"__builtins__": {}}, {"float": float, "max": max, "round": round, "int": int})


def parse_answer(line):
    toks = line.split(" ")
    if toks[0] == "err":
        return "err:" + toks[1], {}
    d = {}
    for t in toks[1:]:
        k, v = t.split("=", 1)
        d[k] = v
    return toks[0], d


def model_value(k, v):
    """driver token -> (attribute name, Python value)"""
    if k == "length":
        return k, pyval(v)
    if k.startswith("x_"):
        return k[2:], pyval(v)
    if k.startswith("s_"):
        return k[2:], bytes.fromhex(v if v != "-" else "").decode("latin-1")
    if k.startswith("none_"):
        return k[5:], None
    return k, int(v)


def edges(bits, lo=0, hi=None):
    mx = (1 << bits) - 1
    hi = mx if hi is None else hi
    c = {lo, lo + 1, 1, 2, 3, hi, hi - 1, mx, mx - 1}
    for b in (bits - 1, 7, 8, 15, 16, 24, 31, 32):
        if 0 < b <= bits:
            c |= {(1 << b) - 1, 1 << b, (1 << b) + 1}
    return sorted(v for v in c if lo <= v <= hi)


def rbytes(rng, n):
    return bytes(rng.randrange(256) for _ in range(n))


def args(d):
    out = []
    for k, v in d.items():
        if v is None:
            continue
        if isinstance(v, (bytes, bytearray)):
            v = hx(bytes(v))
        out.append("%s=%s" % (k, v))
    return " ".join(out)


def damage(rng, base, magics=(), n_random=6, every_prefix=96):
    """generic damaged variants of a well-formed file"""
    out = []
    for n in range(0, min(len(base), every_prefix) + 1):
        out.append(("trunc", base[:n]))
    for _ in range(n_random):
        out.append(("trunc", base[:rng.randrange(len(base) + 1)]))
    for off, repl in magics:
        out.append(("magic@%d" % off, base[:off] + repl + base[off + len(repl):]))
    for _ in range(n_random):
        b = bytearray(base)
        for _ in range(rng.choice([1, 1, 2, 5])):
            b[rng.randrange(min(len(b), 120))] = rng.choice([0, 1, 0x7F, 0x80, 0xFF, rng.randrange(256)])
        out.append(("flip", bytes(b)))
    out.append(("junk-after", base + rbytes(rng, rng.choice([1, 8, 30]))))
    return out


class KindTie(object):
    """one format; subclasses fill in the specifics"""
    name = None                 # headers_more kind and driver kind
    hm_kinds = ()               # headers_more kinds that map to this model
    attrs = ()                  # attributes compared (besides length)

    def real(self, data):
        """-> dict attr -> value; raises what the class raises"""
        raise NotImplementedError

    def fields_of(self, kind, params, data):
        """headers_more params -> driver field dict (None: this case has no counterpart)"""
        return None

    def lattice(self, rng, scale):
        return []

    def damaged(self, rng, goods, scale):
        out = []
        for g in goods[:3 + scale]:
            out += damage(rng, g)
        return out

    def public(self, data):
        return None


TIES = []


def register(cls):
    TIES.append(cls())
    return cls


def real_answer(tie, data):
    k, r = timed(lambda: tie.real(data), 20)
    if k == "hang":
        return "hang", {}
    if k == "exc":
        return classify(r), {}
    return "ok", r


def compare(ctx, tie, what, desc, ans, rstat, rvals, instance=False):
    """`instance`: `ans` is the specification side's expectation for a header that meets every hypothesis of the decode
    theorem - a real class that reports something else does not report what the header encodes (a failing input)"""
    mstat, mvals = parse_answer(ans)
    if mstat == "err:notimplemented":
        ctx.hist["infob:%s:outside-model" % tie.name] += 1
        return True
    ctx.traces_validated += 1
    if mstat != rstat:
        ctx.disagree("%s %s: status" % (tie.name, what), desc, model=ans[:300], impl="%s %r" % (rstat, rvals))
        return False
    if mstat != "ok":
        return True
    bad = {}
    seen = set()
    for k0, v in mvals.items():
        try:
            k, mv = model_value(k0, v)
        except Exception as e:
            bad[k0] = (v, "model expression raises %r" % e)
            continue
        seen.add(k)
        if k not in rvals:
            bad[k] = (v, "<missing>")
        elif mv != rvals[k] or type(mv) is not type(rvals[k]) and not (isinstance(mv, (int, float)) and isinstance(rvals[k], (int, float))):
            bad[k] = (v, rvals[k])
    for k in rvals:
        if k not in seen:
            bad[k] = ("<missing>", rvals[k])
    if bad and instance and ctx.prop == "C05":
        k = sorted(bad)[0]
        ctx.violation("infob:%s:theorem-instance:%s" % (tie.name, k),
                      "the header fields encode %s = %s (decode theorem of %s, all hypotheses met) but the real class reports %r"
                      % (k, bad[k][0], tie.name, bad[k][1]), desc)
        return False
    if bad:
        ctx.disagree("%s %s: attributes" % (tie.name, what), desc, model=repr(bad)[:400], impl=None)
        return False
    return True


def run_kind(ctx, tie, scale):
    from gen import headers_more
    rng = ctx.rng
    ncases = 0
    # ---- batch 1: builds and expectations
    specs = []      # (origin, fields, hm_data or None, hm_expect or None)
    for kind in tie.hm_kinds:
        build = headers_more.BUILDERS[kind]
        fn = dict(headers_more._CASE_FUNCS)[kind]
        for params in fn(rng, scale):
            data, expect = build(params)
            fields = tie.fields_of(kind, params, data)
            specs.append(("hm:" + kind, fields, data, expect, params))
    lat = tie.lattice(rng, scale)
    if hasattr(tie, "header_packets"):
        # two of three lattice files carry the codec's real comment/setup packets after the identification page, so that
        # the file class (tags and all) loads them too, not only the info class
        for i, fields in enumerate(lat):
            if i % 3 != 2 and isinstance(fields.get("middle"), bytes) and "serial" in fields:
                mid = ogg_page(tie.header_packets(), fields["serial"], 1, 0)
                if i % 3 == 1:
                    mid += ogg_page([rbytes(rng, 5)], fields["serial"] ^ 1, 0, 77, flags=2)
                fields["middle"] = mid
    for fields in lat:
        # `_py`: the same file built by an independent Python builder
        specs.append(("lattice", fields, fields.pop("_py", None), None, None))
    lines = []
    for origin, fields, data, expect, params in specs:
        if fields is None:
            continue
        lines.append("infob op=build %s" % args(fields))
        lines.append("infob op=expect %s" % args(fields))
    answers = ctx.driver.ask(lines) if lines else []
    if any(a == "bad-op" for a in answers):
        ctx.notes.append("info_tie_b: the driver does not know `infob` kind %s; tie skipped" % tie.name)
        return 0
    it = iter(answers)
    goods = []
    todo = []       # (what, desc, data, expectation from Lean or None)
    for origin, fields, data, expect, params in specs:
        desc = dict(kind=tie.name, origin=origin)
        if params is not None:
            desc["params"] = {k: (v if not isinstance(v, bytes) else v.hex()) for k, v in params.items()}
        if fields is None:
            todo.append(("hm-unmodelled-shape", desc, data, None))
            ctx.hist["infob:%s:hm-no-counterpart" % tie.name] += 1
            goods.append(data)
            continue
        desc["fields"] = args(fields)[:600]
        b = next(it); e = next(it)
        built = bytes.fromhex(b.split("v=", 1)[1].replace("-", "")) if b.startswith("ok v=") else None
        if built is None:
            ctx.disagree("%s build failed" % tie.name, desc, model=b[:200])
            continue
        if data is not None and built != data:
            ctx.disagree("%s: Lean build differs from headers_more's bytes" % tie.name, desc,
                         model=built[:120].hex(), impl=data[:120].hex())
            ctx.hist["infob:%s:build-differs" % tie.name] += 1
        elif data is not None:
            ctx.hist["infob:%s:build-equal" % tie.name] += 1
        estat, evals = parse_answer(e)
        exp = None
        if estat == "ok":
            flags = {k: evals.pop(k) for k in ("ok", "partial") if k in evals}
            ctx.hist["infob:%s:OK=%s,partial=%s" % (tie.name, flags.get("ok"), flags.get("partial"))] += 1
            if flags.get("ok") == "1" and flags.get("partial") == "1":
                exp = evals
            if flags.get("ok") == "1":
                goods.append(built)
        todo.append((origin, desc, built, exp))
    for what, data in tie.damaged(rng, goods, scale):
        todo.append(("damaged:" + what, dict(kind=tie.name, origin="damaged:" + what, data=hx(data) if len(data) < 700 else "len=%d" % len(data)), data, None))
    # ---- batch 2: the code side against the real class
    lines = ["infob kind=%s data=%s" % (tie.name, hx(d)) for _, _, d, _ in todo]
    answers = ctx.driver.ask(lines) if lines else []
    for (what, desc, data, exp), ans in zip(todo, answers):
        rstat, rvals = real_answer(tie, data)
        ncases += 1
        ctx.case(key=("infob", tie.name, what.split(":")[0], ncases), nontrivial=(rstat == "ok"), modelled=True,
                 sample=desc if ncases in (3, 40) else None)
        ctx.hist["infob:%s:%s:%s" % (tie.name, what.split(":")[0] if not what.startswith("damaged") else "damaged", rstat)] += 1
        if rstat == "hang":
            ctx.violation("infob:%s:hang" % tie.name, "did not finish", desc)
            continue
        pk, pr = timed(lambda: tie.public(data), 20)
        if ctx.prop == "C04":
            # under C04: the info class alone may raise what its file class converts (EOFError, struct.error …); what
            # counts is what the caller of the public class sees
            if pk == "hang" or (pk == "exc" and classify(pr) != "err:mutagen"):
                if "data" not in desc and len(data) < 700:
                    desc = dict(desc, data=hx(data))
                ctx.violation("infob:%s:escape:%s" % (tie.name, "hang" if pk == "hang" else classify(pr)[4:]),
                              "loading raised %r instead of a MutagenError" % (pr,), desc)
            elif rstat not in ("ok", "err:mutagen"):
                ctx.hist["infob:%s:info-class-only-exception" % tie.name] += 1
        ctx.hist["infob:%s:file-class:%s" % (tie.name, "none" if (pk == "ok" and pr is None) else pk if pk != "exc" else classify(pr))] += 1
        if "data" not in desc and len(data) < 700:
            desc = dict(desc, data=hx(data))
        compare(ctx, tie, "parse", desc, ans, rstat, rvals)
        if exp is not None:
            # the theorem instantiated: OK ∧ partial-hypothesis ⇒ the real class reports `expected`
            if rstat != "ok" and ctx.prop == "C05":
                ctx.violation("infob:%s:theorem-instance:raises" % tie.name, "the real class raised (%s) on a header that meets every hypothesis "
                              "of the decode theorem; the fields encode %s" % (rstat, repr(exp)[:200]), desc)
            elif rstat != "ok":
                ctx.disagree("%s: theorem instance: real class raised on an OK header" % tie.name, desc, model="expected " + repr(exp)[:200], impl=rstat)
            else:
                compare(ctx, tie, "expected", desc, "ok " + " ".join("%s=%s" % kv for kv in exp.items()), rstat, rvals, instance=True)
        if (what.startswith("hm:") or what == "lattice") and rstat == "ok" and pk == "ok":
            pub = pr
            if pub is not None and pub != rvals:
                ctx.disagree("%s: public class differs from the info class" % tie.name, desc, model=repr(rvals)[:200], impl=repr(pub)[:200])
    return ncases


# ======================================================================================
# SMF (Standard MIDI File); the generator is written from the SMF 1.0 specification

def smf_varint(n):
    """variable-length quantity: 7 bits per byte, most significant first, bit 7 set on all but the last"""
    out = [n & 0x7F]
    n >>= 7
    while n:
        out.append(0x80 | (n & 0x7F))
        n >>= 7
    return bytes(reversed(out))


def smf_chunk(ident, data):
    return ident + struct.pack(">L", len(data)) + data


def smf_event(rng, ev, state):
    """one MTrk event `(delta, kind, …)` as bytes; `state` carries the running status"""
    delta, kind = ev[0], ev[1]
    out = smf_varint(delta)
    if kind == "midi":
        status, data = ev[2], ev[3]
        if ev[4] and state.get("status") == status:          # running status: the status byte is left out
            out += bytes(data)
        else:
            out += bytes([status]) + bytes(data)
        state["status"] = status
    elif kind == "tempo":
        out += b"\xff\x51\x03" + struct.pack(">L", ev[2])[1:]
    elif kind == "meta":
        out += b"\xff" + bytes([ev[2]]) + smf_varint(len(ev[3])) + ev[3]
    elif kind == "sysex":
        out += bytes([ev[2]]) + smf_varint(len(ev[3])) + ev[3]
    return out


def smf_track(rng, events):
    state = {}
    return smf_chunk(b"MTrk", b"".join(smf_event(rng, e, state) for e in events))


def smf_random_events(rng, n, tempo_rate=0.15, zero_nonmidi=False):
    evs = []
    for _ in range(n):
        delta = rng.choice([0, 0, 1, 10, 96, 127, 128, 480, 16383, 16384, 2 ** 21 - 1, 2 ** 28 - 1])
        r = rng.random()
        if r < tempo_rate:
            evs.append((0 if zero_nonmidi else delta, "tempo", rng.choice([1, 250000, 500000, 500001, 1000000, 2 ** 24 - 1])))
        elif r < tempo_rate + 0.1:
            evs.append((0 if zero_nonmidi else delta, "meta", rng.choice([0x01, 0x03, 0x2F, 0x58, 0x59, 0x7F]), rbytes(rng, rng.choice([0, 1, 4, 130]))))
        elif r < tempo_rate + 0.15:
            evs.append((0 if zero_nonmidi else delta, "sysex", rng.choice([0xF0, 0xF7]), rbytes(rng, rng.choice([0, 1, 5, 200]))))
        else:
            hi = rng.choice([0x8, 0x9, 0xA, 0xB, 0xC, 0xD, 0xE])
            status = (hi << 4) | rng.randrange(16)
            nd = 1 if hi in (0xC, 0xD) else 2
            evs.append((delta, "midi", status, [rng.randrange(128) for _ in range(nd)], rng.random() < 0.5))
    return evs


@register
class SmfTie(KindTie):
    name = "SMF"
    hm_kinds = ()

    def real(self, data):
        from mutagen.smf import SMFInfo
        return dict(length=SMFInfo(io.BytesIO(data)).length)

    def public(self, data):
        from mutagen.smf import SMF
        return dict(length=SMF(io.BytesIO(data)).info.length)

    def lattice(self, rng, scale):
        return []

    def files(self, rng, scale):
        out = []
        for i in range(120 * scale):
            fmt = rng.choice([0, 1, 1, 1, 2])
            ntr = 1 if fmt == 0 else rng.choice([1, 2, 3, 5])
            div = rng.choice([1, 24, 96, 480, 960, 32767, 0, 0x8000 | 0x6728, 0xE250])
            if rng.random() < 0.85:
                div = rng.choice([1, 24, 96, 480, 960, 32767])
                fmt = rng.choice([0, 1, 1])
            tracks = [smf_track(rng, smf_random_events(rng, rng.choice([0, 1, 3, 10, 40]),
                                                        tempo_rate=rng.choice([0, 0.15, 0.5]),
                                                        zero_nonmidi=rng.random() < 0.3)) for _ in range(ntr)]
            declared = ntr if rng.random() < 0.8 else rng.choice([0, ntr - 1, ntr + 1, ntr + 3])
            body = b"".join(tracks)
            if rng.random() < 0.15:
                body = smf_chunk(b"XFIH", rbytes(rng, 5)) + body           # an alien chunk before the tracks
            data = smf_chunk(b"MThd", struct.pack(">HHH", fmt, max(0, declared), div)) + body
            out.append(("gen:%d" % i, data))
            if rng.random() < 0.3:
                out.append(("gen-cut:%d" % i, data[:rng.randrange(len(data) + 1)]))
            if rng.random() < 0.3:
                b = bytearray(data)
                for _ in range(rng.choice([1, 2, 5])):
                    b[rng.randrange(len(b))] = rng.choice([0, 0x7F, 0x80, 0xF0, 0xF7, 0xFF, 0x51, rng.getrandbits(8)])
                out.append(("gen-flip:%d" % i, bytes(b)))
        # hand-made: running status after a meta event, status 0 running, F1..F6 / F8..FE, long varints, 6-byte-plus headers
        tr = lambda b: smf_chunk(b"MTrk", b)
        hd = lambda f, n, d, extra=b"": smf_chunk(b"MThd", struct.pack(">HHH", f, n, d) + extra)
        out += [
            ("hand:running-after-meta", hd(0, 1, 96) + tr(b"\x00\x90\x3c\x40\x10\xff\x01\x01x\x10\x3c\x00")),
            ("hand:running-without-status", hd(0, 1, 96) + tr(b"\x05\x3c\x40\x05\x3c\x00")),
            ("hand:running-prog", hd(0, 1, 96) + tr(b"\x00\xc0\x05\x60\x06\x60\x07")),
            ("hand:invalid-f1", hd(0, 1, 96) + tr(b"\x00\xf1\x00")),
            ("hand:invalid-fe", hd(0, 1, 96) + tr(b"\x00\xfe")),
            ("hand:varint-5", hd(0, 1, 96) + tr(b"\x81\x80\x80\x80\x00\x90\x3c\x40")),
            ("hand:varint-max", hd(0, 1, 96) + tr(b"\xff\xff\xff\x7f\x90\x3c\x40")),
            ("hand:varint-zeros", hd(0, 1, 96) + tr(b"\x80\x80\x80\x80\x80\x80\x00\x90\x3c\x40")),
            ("hand:varint-open", hd(0, 1, 96) + tr(b"\x00\x90\x3c\x40\x80\x80")),
            ("hand:tempo-len2", hd(0, 1, 96) + tr(b"\x00\xff\x51\x02\x07\xa1")),
            ("hand:tempo-len4", hd(0, 1, 96) + tr(b"\x00\xff\x51\x04\x07\xa1\x20\x00")),
            ("hand:tempo-cut", hd(0, 1, 96) + tr(b"\x00\xff\x51\x03\x07\xa1")),
            ("hand:header-7", hd(0, 1, 96, b"\x00") + tr(b"\x00\x90\x3c\x40")),
            ("hand:no-tracks", hd(1, 0, 96)),
            ("hand:only-alien", hd(1, 1, 96) + smf_chunk(b"XFIH", b"abc")),
            ("hand:alien-takes-slot", hd(1, 1, 96) + smf_chunk(b"XFIH", b"abc") + tr(b"\x60\x90\x3c\x40")),
            ("hand:empty-track", hd(1, 1, 96) + tr(b"")),
            ("hand:tempo-track-later", hd(1, 3, 96) + tr(b"\x60\x90\x3c\x40") + tr(b"\x00\xff\x51\x03\x0f\x42\x40") + tr(b"\x60\x90\x3c\x40")),
            ("hand:tempo-same-tick", hd(0, 1, 96) + tr(b"\x00\xff\x51\x03\x0f\x42\x40\x00\xff\x51\x03\x07\xa1\x20\x60\x90\x3c\x40")),
            ("hand:tempo-mid", hd(0, 1, 480) + tr(b"\x83\x60\x90\x3c\x40\x00\xff\x51\x03\x0f\x42\x40\x83\x60\x80\x3c\x00")),
            ("hand:eot-delta", hd(0, 1, 480) + tr(b"\x00\x90\x3c\x40\x83\x60\xff\x2f\x00")),
            ("hand:format2", hd(2, 1, 96) + tr(b"\x60\x90\x3c\x40")),
            ("hand:smpte", hd(0, 1, 0xE728) + tr(b"\x60\x90\x3c\x40")),
            ("hand:div0", hd(0, 1, 0) + tr(b"\x60\x90\x3c\x40")),
            ("hand:empty", b""), ("hand:riff", b"RIFF\x00\x00\x00\x00RMIDdata"),
        ]
        for fn in ("sample.mid",):
            p = os.path.join("/repo/tests/data", fn)
            if os.path.exists(p):
                raw = open(p, "rb").read()
                out.append(("sample:" + fn, raw))
                for _ in range(10 * scale):
                    out.append(("sample-cut:" + fn, raw[:rng.randrange(len(raw))]))
                    b = bytearray(raw); b[rng.randrange(len(b))] = rng.getrandbits(8)
                    out.append(("sample-flip:" + fn, bytes(b)))
        return out

    def damaged(self, rng, goods, scale):
        return self.files(rng, scale)


@register
class SmfSpecTie(SmfTie):
    """the specification side: Lean `File.build` == the Python generator's bytes; where `OK` holds the real class
    reports `File.expected` (tempo changes anywhere, delta-times on every kind of event)"""
    name = "SMFspec"

    def damaged(self, rng, goods, scale):
        return []

    @staticmethod
    def ev_str(ev):
        d, k = ev[0], ev[1]
        if k == "midi":
            return "%d:m:%d:%d:%s:%d" % (d, ev[2], ev[3][0], ev[3][1] if len(ev[3]) > 1 else "-", 1 if ev[4] else 0)
        if k == "tempo":
            return "%d:t:%d" % (d, ev[2])
        if k == "meta":
            return "%d:x:%d:%s" % (d, ev[2], ev[3].hex() or "-")
        return "%d:s:%d:%s" % (d, ev[2], ev[3].hex() or "-")

    def fix_running(self, evs):
        """running status only right behind a channel message with the same status (the specification's rule)"""
        out, prev = [], None
        for ev in evs:
            if ev[1] == "midi":
                out.append((ev[0], "midi", ev[2], ev[3], bool(ev[4] and prev == ev[2])))
                prev = ev[2]
            else:
                out.append(ev); prev = None
        return out

    def lattice(self, rng, scale):
        out = []
        for i in range(150 * scale):
            fmt = rng.choice([0, 1, 1])
            ntr = 1 if fmt == 0 else rng.choice([1, 2, 3])
            div = rng.choice([1, 24, 96, 480, 960, 32767])
            aligned = rng.random() < 0.5
            tracks = []
            for t in range(ntr):
                evs = self.fix_running(smf_random_events(rng, rng.choice([0, 1, 4, 12]), tempo_rate=0 if (aligned and t > 0) else rng.choice([0, 0.2]),
                                                         zero_nonmidi=aligned))
                if aligned:
                    # the tempo map first, at tick 0, in ascending order
                    tm = sorted((e for e in evs if e[1] == "tempo"), key=lambda e: e[2])
                    evs = [(0, "tempo", e[2]) for e in tm] + [e for e in evs if e[1] != "tempo"]
                    evs = self.fix_running(evs)
                tracks.append(evs)
            py = smf_chunk(b"MThd", struct.pack(">HHH", fmt, ntr, div)) + b"".join(smf_track(rng, t) for t in tracks)
            out.append(dict(kind="SMFspec", format=fmt, division=div,
                            tracks="/".join(",".join(self.ev_str(e) for e in t) or "-" for t in tracks), _py=py))
        return out


# ======================================================================================
# WAVE

@register
class WaveTie(KindTie):
    name = "WAVE"
    hm_kinds = ("WAVE",)

    def real(self, data):
        from mutagen.wave import WaveStreamInfo
        i = WaveStreamInfo(io.BytesIO(data))
        return dict(audio_format=i.audio_format, channels=i.channels, sample_rate=i.sample_rate,
                    bits_per_sample=i.bits_per_sample, bitrate=i.bitrate, length=i.length)

    def public(self, data):
        from mutagen.wave import WAVE
        i = WAVE(io.BytesIO(data)).info
        return dict(audio_format=i.audio_format, channels=i.channels, sample_rate=i.sample_rate,
                    bits_per_sample=i.bits_per_sample, bitrate=i.bitrate, length=i.length)

    def fields_of(self, kind, p, data):
        from gen import headers_more as H
        form = p["fmt_form"]
        if form == 16:
            ext = b""
        elif form == 18:
            ext = struct.pack("<H", 0)
        elif form == 40:
            ext = struct.pack("<HHI", 22, p["valid_bits"], 0) + H._KSDATAFORMAT_PCM
        else:
            coefs = [(256, 0), (512, -256), (0, 0), (192, 64), (240, 0), (460, -208), (392, -232)]
            ext = struct.pack("<HHH", 32, p["samples_per_block"], 7) + b"".join(struct.pack("<hh", a, b) for a, b in coefs)
        return dict(kind="WAVE", tag=p["fmt_tag"], ch=p["channels"], rate=p["rate"], avg=p["avg_bytes"], align=p["block_align"],
                    bits=p["bits"], ext=ext, fact=p["fact_samples"] if p["fact_samples"] >= 0 else None,
                    bf=p["samples_per_block"] if form == 50 else 1, payload=H._filler(p["data_bytes"]))

    def lattice(self, rng, scale):
        out = []

        def add(tag=1, ch=2, rate=44100, avg=None, align=None, bits=16, ext=b"", fact=None, bf=1, n=64):
            align = ch * ((bits + 7) // 8) if align is None else align
            avg = (rate * ch * bits // 8) if avg is None else avg
            out.append(dict(kind="WAVE", tag=tag, ch=ch, rate=rate, avg=avg & 0xFFFFFFFF, align=align & 0xFFFF, bits=bits, ext=ext,
                            fact=fact, bf=bf, payload=rbytes(rng, n)))
        for v in edges(16):
            add(tag=v)
            add(ch=v, bits=8, align=max(1, v) & 0xFFFF)
            add(align=v)
            add(bits=v, align=4)
        for v in edges(32):
            add(rate=v, avg=0)
            add(avg=v)
            add(fact=v)
        for n in [0, 1, 2, 3, 4, 5, 7, 8, 255, 256, 257, 1000, 4097]:
            add(n=n)
            add(n=n, align=3, ch=3, bits=8)
        for ext in [b"", b"\0", b"\0\0", rbytes(rng, 3), rbytes(rng, 24), rbytes(rng, 25)]:
            add(ext=ext)
        add(tag=2, bits=4, align=512, avg=11155, rate=22050, ch=1, ext=b"\0" * 34, fact=4048, bf=1012, n=2048)
        add(tag=0x11, bits=4, align=256, avg=4055, rate=8000, ch=1, ext=struct.pack("<HH", 2, 505), fact=1010, bf=505, n=512)
        add(tag=0x55, bits=0, align=1, avg=16000, rate=44100, ch=2, ext=b"\x0c\0" + b"\1\0\2\0\0\0\0\2\1\0\x71\5", fact=0, bf=1152, n=417)
        for _ in range(40 * scale):
            add(tag=rng.choice([1, 3, 6, 7, 0xFFFE, rng.getrandbits(16)]), ch=rng.choice([1, 2, 6, rng.getrandbits(16)]),
                rate=rng.choice([8000, 44100, 48000, rng.getrandbits(rng.randint(1, 32))]),
                avg=rng.choice([None, rng.getrandbits(32)]), align=rng.choice([None, rng.getrandbits(16)]),
                bits=rng.choice([8, 16, 24, 32, rng.getrandbits(16)]), ext=rbytes(rng, rng.choice([0, 0, 2, 24])),
                fact=rng.choice([None, rng.getrandbits(32)]), n=rng.randrange(0, 300))
        return out

    def damaged(self, rng, goods, scale):
        out = []
        base = goods[0] if goods else b""
        for g in goods[:2 + scale]:
            out += damage(rng, g, magics=[(0, b"RIFX"), (0, b"LIST"), (0, b"riff"), (8, b"WAVX"), (8, b"wave"), (8, b"W\xc3\xa9V"),
                                          (12, b"FMT "), (12, b"fmt\0"), (12, b"fmt\t"), (12, b"fm  "), (12, b"LIST"), (12, b"\xff\xfe\xfd\xfc"),
                                          (4, b"\0\0\0\0"), (4, b"\3\0\0\0"), (4, b"\4\0\0\0"), (4, b"\5\0\0\0"), (4, b"\xff\xff\xff\xff"),
                                          (16, b"\0\0\0\0"), (16, b"\x0f\0\0\0"), (16, b"\x11\0\0\0"), (16, b"\xff\xff\xff\xff"),
                                          (16, b"\xff\xff\xff\x7f")])

        def ck(cid, d, pad=True):
            return cid + struct.pack("<I", len(d)) + d + (b"\0" if pad and len(d) & 1 else b"")

        def riff(*chunks, form=b"WAVE", size=None):
            body = form + b"".join(chunks)
            return b"RIFF" + struct.pack("<I", len(body) if size is None else size) + body
        fmt = struct.pack("<HHIIHH", 1, 2, 44100, 176400, 4, 16)
        out += [("no-fmt", riff(ck(b"data", b"1234"))), ("no-data", riff(ck(b"fmt ", fmt))),
                ("two-fmt", riff(ck(b"fmt ", struct.pack("<HHIIHH", 1, 1, 8000, 8000, 1, 8)), ck(b"fmt ", fmt), ck(b"data", b"12345678"))),
                ("two-data", riff(ck(b"fmt ", fmt), ck(b"data", b"1234"), ck(b"data", b"12345678"))),
                ("data-first", riff(ck(b"data", b"12345"), ck(b"fmt ", fmt))),
                ("odd-unpadded", riff(ck(b"data", b"12345", pad=False), ck(b"fmt ", fmt))),
                ("align0", riff(ck(b"fmt ", struct.pack("<HHIIHH", 1, 2, 44100, 176400, 0, 16)), ck(b"data", b"12345678"))),
                ("rate0", riff(ck(b"fmt ", struct.pack("<HHIIHH", 1, 2, 0, 176400, 4, 16)), ck(b"data", b"12345678"))),
                ("short-fmt", riff(ck(b"fmt ", fmt[:15]), ck(b"data", b"12345678"))),
                ("fmt-claims-more", riff(b"fmt " + struct.pack("<I", 4000) + fmt)),
                ("fmt-claims-more-short", riff(b"fmt " + struct.pack("<I", 4000) + fmt[:10])),
                ("data-claims-more", riff(ck(b"fmt ", fmt), b"data" + struct.pack("<I", 0xFFFFFFFF) + b"123")),
                ("list-ok", riff(ck(b"LIST", b"INFO" + ck(b"INAM", b"x")), ck(b"fmt ", fmt), ck(b"data", b"12345678"))),
                ("list-short", riff(ck(b"LIST", b"IN"), ck(b"fmt ", fmt), ck(b"data", b"12345678"))),
                ("list-nonascii", riff(ck(b"LIST", b"IN\xffO" + ck(b"INAM", b"x")), ck(b"fmt ", fmt), ck(b"data", b"12345678"))),
                ("list-nonascii-after", riff(ck(b"fmt ", fmt), ck(b"data", b"12345678"), ck(b"LIST", b"\x80NFO"))),
                ("riff-inside", riff(ck(b"RIFF", b"WAVE" + ck(b"fmt ", fmt)), ck(b"data", b"1234"))),
                ("root-size-small", riff(ck(b"fmt ", fmt), ck(b"data", b"12345678"), size=20)),
                ("root-size-cuts-fmt", riff(ck(b"fmt ", fmt), ck(b"data", b"12345678"), size=13)),
                ("root-size-odd", riff(ck(b"fmt ", fmt), ck(b"data", b"12345678"), size=4 + 24 + 15) ),
                ("root-size-big", riff(ck(b"fmt ", fmt), ck(b"data", b"12345678"), size=0xFFFFFFFF)),
                ("id3-first", riff(ck(b"ID3 ", b"ID3\4\0\0\0\0\0\0"), ck(b"fmt ", fmt), ck(b"data", b"12345678"))),
                ("form-nonascii", riff(ck(b"fmt ", fmt), form=b"WA\x80E")),
                ("empty", b""), ("only-root", riff()), ("root-size-3", b"RIFF\3\0\0\0WAV"),
                ("id-spaces", riff(ck(b"    ", b"12"), ck(b"fmt ", fmt), ck(b"data", b"12345678"))),
                ("id-ctrl", riff(ck(b"ab\x1fd", b"12"), ck(b"fmt ", fmt), ck(b"data", b"12345678"))),
                ("id-rstrip-ctrl", riff(ck(b"fmt\x1f", fmt), ck(b"data", b"12345678"))),
                ("id-rstrip-nl", riff(ck(b"fmt\n", fmt), ck(b"data", b"12345678"))),
                ("id-del", riff(ck(b"fm\x7f ", fmt), ck(b"fmt ", fmt), ck(b"data", b"12345678"))),
                ("id-tilde", riff(ck(b"~~~~", b""), ck(b"fmt ", fmt), ck(b"data", b"12345678")))]
        return out


# ======================================================================================
# AIFF

def chunk_arg(chunks):
    return ",".join("%s:%s" % (cid.hex(), d.hex() if d else ".") for cid, d in chunks) if chunks else "-"


@register
class AiffTie(KindTie):
    name = "AIFF"
    hm_kinds = ("AIFF",)

    @staticmethod
    def attrs_of(i):
        return dict(channels=i.channels, bits_per_sample=i.bits_per_sample, sample_size=i.sample_size,
                    sample_rate=i.sample_rate, bitrate=i.bitrate, length=i.length)

    def real(self, data):
        from mutagen.aiff import AIFFInfo
        return self.attrs_of(AIFFInfo(io.BytesIO(data)))

    def public(self, data):
        from mutagen.aiff import AIFF
        return self.attrs_of(AIFF(io.BytesIO(data)).info)

    def fields_of(self, kind, p, data):
        from gen import headers_more as H
        if p["rate_num"] >= 1 << 64:
            return None
        nbytes = (p["bits"] + 7) // 8
        snd = H._filler(p["data_frames"] * p["channels"] * nbytes)
        ssnd = (b"SSND", struct.pack(">LL", 0, 0) + snd)
        before, ext = [], b""
        if p["form"] == "AIFC":
            ext = p["ctype"].encode("ascii") + H._pstring(b"not compressed")
            before.append((b"FVER", struct.pack(">L", 0xA2805140)))
        after = []
        if p["order"] == "COMM-SSND":
            after.append(ssnd)
        else:
            before.append(ssnd)
        return dict(kind="AIFF", form=p["form"].encode("ascii"), ch=p["channels"], frames=p["frames"], bits=p["bits"],
                    num=p["rate_num"], shift=p["rate_shift"], ext=ext, before=chunk_arg(before), after=chunk_arg(after))

    def lattice(self, rng, scale):
        out = []

        def add(form=b"AIFF", ch=2, frames=1000, bits=16, num=44100, shift=0, ext=b"", before=(), after=((b"SSND", b"\0" * 8 + b"abcd"),)):
            out.append(dict(kind="AIFF", form=form, ch=ch, frames=frames, bits=bits, num=num, shift=shift, ext=ext,
                            before=chunk_arg(list(before)), after=chunk_arg(list(after))))
        for v in edges(16):
            add(ch=v)
            add(bits=v)
        for v in edges(32):
            add(frames=v)
        nums = set(edges(64, 1))
        for b in (52, 53, 54, 55, 60, 62, 63):
            for d in (-2, -1, 0, 1, 2, 3, 4, 5, 6, 7):
                nums.add((1 << b) + d)
        for b in (1, 2, 10, 11, 12):
            nums |= {(1 << 64) - (1 << b), (1 << 64) - (1 << b) - 1, (1 << 64) - (1 << b) + 1, (1 << 63) + (1 << b), (1 << 63) + (1 << b) - 1,
                     (1 << 63) + 3 * (1 << (b - 1))}
        for v in sorted(n for n in nums if 1 <= n < (1 << 64)):
            add(num=v, ch=1, bits=8, frames=7)
        for sh in [1, 2, 3, 10, 15, 16, 17, 63, 64, 1000, 16382, 16383, 16400, 20000]:
            add(shift=sh)
            add(shift=sh, num=(1 << 64) - 1)
            add(shift=sh, num=44101)
        add(num=0)
        add(num=0, shift=5)
        for n in [0, 1, 2, 5, 22, 23]:
            add(ext=rbytes(rng, n))
        add(form=b"AIFC", ext=b"sowt\x00\x00", before=((b"FVER", struct.pack(">L", 0xA2805140)),))
        add(form=b"XXXX")
        add(form=b"AI\xc3F")
        add(before=((b"SSND", b"\0" * 9), (b"NAME", b"odd"), (b"(c) ", b"")), after=())
        add(before=((b"COMM", b"\0" * 18),))
        add(after=((b"COMM", b"\0" * 18),))
        add(before=((b"comm", b"\0" * 18), (b"COM ", b"x")))
        for _ in range(40 * scale):
            add(form=rng.choice([b"AIFF", b"AIFC"]), ch=rng.choice([1, 2, rng.getrandbits(15), rng.getrandbits(16)]), frames=rng.getrandbits(rng.randint(1, 32)),
                bits=rng.choice([8, 16, 24, 32, rng.randint(1, 32), rng.getrandbits(16)]),
                num=rng.choice([44100, 48000, rng.getrandbits(rng.randint(1, 64)) or 1]), shift=rng.choice([0, 0, 0, 1, rng.randint(0, 70)]),
                ext=rbytes(rng, rng.choice([0, 0, 6])), before=[(b"SSND", rbytes(rng, rng.randrange(8, 20)))] if rng.random() < 0.4 else [])
        return out

    def damaged(self, rng, goods, scale):
        out = []
        for g in goods[:2 + scale]:
            out += damage(rng, g, magics=[(0, b"FORX"), (0, b"form"), (0, b"RIFF"), (8, b"AIF\xff"), (12, b"comm"), (12, b"COM\0"), (12, b"COMM"),
                                          (4, b"\0\0\0\0"), (4, b"\0\0\0\3"), (4, b"\0\0\0\4"), (4, b"\0\0\0\5"), (4, b"\xff\xff\xff\xff"),
                                          (16, b"\0\0\0\0"), (16, b"\0\0\0\x11"), (16, b"\0\0\0\x12"), (16, b"\0\0\0\x13"), (16, b"\xff\xff\xff\xff")])

        def ck(cid, d):
            return cid + struct.pack(">I", len(d)) + d + (b"\0" if len(d) & 1 else b"")

        def form(*chunks, size=None):
            body = b"AIFF" + b"".join(chunks)
            return b"FORM" + struct.pack(">I", len(body) if size is None else size) + body
        # the 80-bit field itself: every exponent edge x mantissa edge x sign, through the real read_float
        exps = [0, 1, 2, 0x3FFE, 0x3FFF, 0x4000, 0x400D, 0x400E, 0x401E, 0x401F, 0x4033, 0x4034, 0x4035, 0x403D, 0x403E, 0x403F, 0x4040,
                0x4041, 0x43BE, 0x43FD, 0x43FE, 0x43FF, 0x4400, 0x443D, 0x443E, 0x443F, 0x4440, 0x7000, 0x7FFD, 0x7FFE, 0x7FFF]
        mants = [0, 1, 2, 0xFFFFFFFF, 0x100000000, 1 << 52, (1 << 53) - 1, 1 << 53, (1 << 53) + 1, (1 << 63), (1 << 63) + 1, (1 << 63) + 1024,
                 (1 << 63) + 1025, (1 << 63) + 3072, (1 << 64) - 1, (1 << 64) - 1024, (1 << 64) - 1025, 0xAC44 << 48, 0xAC44000000000001,
                 (1 << 62) + 512, (1 << 62) + 513, (1 << 62) + 1536, 0x7FFFFFFFFFFFFFFF]
        for e in exps:
            for m in mants:
                for sign in (0, 0x8000):
                    if sign and rng.random() < 0.6:
                        continue
                    comm = struct.pack(">hLh", 2, 1000, 16) + struct.pack(">HQ", e | sign, m)
                    out.append(("rawfloat", form(ck(b"COMM", comm), ck(b"SSND", b"\0" * 12))))
        for _ in range(60 * scale):
            comm = struct.pack(">HLH", rng.getrandbits(16), rng.getrandbits(32), rng.getrandbits(16)) + struct.pack(">HQ", rng.choice([rng.getrandbits(16), 0x4000 + rng.randrange(80)]), rng.getrandbits(rng.randint(1, 64)))
            out.append(("rawfloat", form(ck(b"COMM", comm))))
        comm = struct.pack(">hLh", 2, 1000, 16) + struct.pack(">HQ", 0x400E, 0xAC44 << 48)
        out += [("no-comm", form(ck(b"SSND", b"\0" * 12))), ("short-comm", form(ck(b"COMM", comm[:17]))),
                ("comm-claims-more", form(b"COMM" + struct.pack(">I", 500) + comm)), ("comm-claims-more-short", form(b"COMM" + struct.pack(">I", 500) + comm[:12])),
                ("two-comm", form(ck(b"COMM", struct.pack(">hLh", 1, 5, 8) + comm[8:]), ck(b"COMM", comm))),
                ("root-size-small", form(ck(b"SSND", b"\0" * 12), ck(b"COMM", comm), size=24)),
                ("root-size-odd", form(ck(b"SSND", b"\0" * 12), ck(b"COMM", comm), size=4 + 20 + 25)),
                ("root-size-big", form(ck(b"COMM", comm), size=0xFFFFFFFF)), ("empty", b""), ("only-root", form()),
                ("form-inside", form(ck(b"FORM", b"AIFF" + ck(b"COMM", comm)))), ("form-inside-nonascii", form(ck(b"FORM", b"AI\xffF"), ck(b"COMM", comm))),
                ("form-inside-short", form(ck(b"FORM", b"AI"), ck(b"COMM", comm))),
                ("id-rstrip", form(ck(b"COMM", comm[:8] + b"\0" * 10), ck(b"COM\x1f", comm)))]
        return out

    def extra(self, ctx, scale):
        """round53 (the int -> float conversion inside read_float) against Python's float()"""
        rng = ctx.rng
        vals = set(edges(64))
        for b in range(52, 64):
            for d in range(-3, 9):
                vals.add((1 << b) + d)
            for _ in range(20 * scale):
                vals.add((1 << b) | rng.getrandbits(b))
                vals.add(((1 << b) | (rng.getrandbits(b - 12) << 12)) + rng.choice([(1 << (b - 53)), (1 << (b - 53)) * 3, (1 << (b - 53)) - 1, (1 << (b - 53)) + 1]) if b > 53 else 5)
        vals = sorted(v for v in vals if 0 <= v < (1 << 64))
        ans = ctx.driver.ask(["infob op=round53 v=%d" % v for v in vals])
        for v, a in zip(vals, ans):
            ctx.traces_validated += 1
            ctx.hist["infob:AIFF:round53"] += 1
            if a != "ok v=%d" % int(float(v)):
                ctx.disagree("AIFF round53 vs float()", dict(v=v), model=a, impl=int(float(v)))
        return len(vals)


# ======================================================================================
# DSF

@register
class DsfTie(KindTie):
    name = "DSF"
    hm_kinds = ("DSF",)

    @staticmethod
    def attrs_of(i):
        return dict(channels=i.channels, sample_rate=i.sample_rate, bits_per_sample=i.bits_per_sample, bitrate=i.bitrate, length=i.length)

    def real(self, data):
        from mutagen.dsf import DSFFile, DSFInfo
        return self.attrs_of(DSFInfo(DSFFile(io.BytesIO(data)).fmt_chunk))

    def public(self, data):
        from mutagen.dsf import DSF
        return self.attrs_of(DSF(io.BytesIO(data)).info)

    def fields_of(self, kind, p, data):
        from gen import headers_more as H
        ch = H._DSF_CHTYPE[p["channel_type"]]
        audio = H._filler(p["data_blocks"] * 4096 * ch)
        return dict(kind="DSF", total=28 + 52 + 12 + len(audio), ptr=0, ctype=p["channel_type"], chnum=ch, rate=p["rate"], bits=p["bits"],
                    count=p["sample_count"], block=4096, reserved=0, payload=audio)

    def lattice(self, rng, scale):
        out = []
        chs = {1: 1, 2: 2, 3: 3, 4: 4, 5: 4, 6: 5, 7: 6}

        def add(total=None, ptr=0, ctype=2, chnum=None, rate=2822400, bits=1, count=1000, block=4096, reserved=0, n=16):
            payload = rbytes(rng, n)
            out.append(dict(kind="DSF", total=92 + n if total is None else total, ptr=ptr, ctype=ctype, chnum=chs.get(ctype, 0) if chnum is None else chnum,
                            rate=rate, bits=bits, count=count, block=block, reserved=reserved, payload=payload))
        for ct in range(0, 9):
            for bits in (1, 8):
                add(ctype=ct, bits=bits)
        for v in edges(32):
            add(rate=v)
            add(rate=v, bits=8)
            add(chnum=v)
            add(ctype=v)
            add(bits=v)
            add(block=v)
            add(reserved=v)
        for v in edges(64):
            add(count=v)
            add(total=v)
            add(ptr=v)
        for n in [0, 1, 2, 11, 12, 13, 4096]:
            add(n=n)
        for _ in range(40 * scale):
            add(ctype=rng.randint(1, 7), rate=rng.choice([2822400, 5644800, 11289600, 22579200, rng.getrandbits(32)]), bits=rng.choice([1, 8]),
                count=rng.getrandbits(rng.randint(1, 64)), ptr=rng.choice([0, rng.getrandbits(63)]), n=rng.randrange(64))
        return out

    def damaged(self, rng, goods, scale):
        out = []
        for g in goods[:2 + scale]:
            mg = [(0, b"DSD\0"), (0, b"dsd "), (28, b"fmt\0"), (28, b"FMT "), (80, b"DATA"), (80, b"dat\0")]
            for off, vals in [(4, [0, 27, 29, 1 << 63]), (12, [0, 1 << 63, (1 << 64) - 1]), (20, [1 << 63, (1 << 63) - 1, (1 << 64) - 1, 92]),
                              (32, [0, 51, 53, 1 << 40]), (84, [0, 11, 12, 13, (1 << 64) - 1])]:
                mg += [(off, struct.pack("<Q", v)) for v in vals]
            for off, vals in [(40, [0, 2, 0xFFFFFFFF]), (44, [1, 2, 0xFFFFFFFF]), (56, [0, 1, 0xFFFFFFFF]), (48, [0, 8]), (52, [0, 7]), (60, [0, 2, 8, 16])]:
                mg += [(off, struct.pack("<I", v)) for v in vals]
            out += damage(rng, g, magics=mg, every_prefix=95)
        out.append(("empty", b""))
        return out


# ======================================================================================
# DSDIFF

@register
class DsdiffTie(KindTie):
    name = "DSDIFF"
    hm_kinds = ("DSDIFF",)

    @staticmethod
    def attrs_of(i):
        return dict(channels=i.channels, sample_rate=i.sample_rate, bits_per_sample=i.bits_per_sample, bitrate=i.bitrate,
                    length=i.length, compression=i.compression)

    def real(self, data):
        from mutagen.dsdiff import DSDIFFInfo
        return self.attrs_of(DSDIFFInfo(io.BytesIO(data)))

    def public(self, data):
        from mutagen.dsdiff import DSDIFF
        return self.attrs_of(DSDIFF(io.BytesIO(data)).info)

    @staticmethod
    def ids_for(ch):
        from gen import headers_more as H
        if ch == 1:
            return [b"C   "]
        if ch <= 6:
            return H._DFF_IDS[:ch] if ch != 2 else [b"SLFT", b"SRGT"]
        return [("C%03d" % (i % 1000)).encode("ascii") for i in range(ch)]

    def fields_of(self, kind, p, data):
        from gen import headers_more as H
        ids = self.ids_for(p["channels"])
        name = b"not compressed" if p["compression"] == "DSD" else b"DST Encoded"
        d = dict(kind="DSDIFF", version=0x01050000, rate=p["rate"], ids=b"".join(ids), comp=p["compression"].ljust(4).encode("ascii"),
                 cname=name, pextra=chunk_arg([(b"ABSS", struct.pack(">HBBL", 0, 0, 0, 0))] if p["with_abss"] else []), after="-")
        if p["compression"] == "DSD":
            d.update(audio="dsd", payload=H._filler(p["bytes_per_channel"] * p["channels"]))
        else:
            d.update(audio="dst", frames=p["dst_frames"], frate=75,
                     dstf=chunk_arg([(b"DSTF", H._filler(10 + (i % 3))) for i in range(min(p["dst_frames"], 8))]))
        return d

    def lattice(self, rng, scale):
        out = []

        def add(rate=2822400, ch=2, comp=b"DSD ", cname=b"not compressed", pextra=(), audio="dsd", n=16, frames=10, frate=75, dstf=2, after=(), ids=None, version=0x01050000):
            d = dict(kind="DSDIFF", version=version, rate=rate, ids=b"".join(self.ids_for(ch)) if ids is None else ids, comp=comp, cname=cname,
                     pextra=chunk_arg(list(pextra)), after=chunk_arg(list(after)), audio=audio)
            if audio == "dsd":
                d["payload"] = rbytes(rng, n)
            else:
                d.update(frames=frames, frate=frate, dstf=chunk_arg([(b"DSTF", rbytes(rng, 5 + i)) for i in range(dstf)]))
            out.append(d)
        for v in edges(32):
            add(rate=v)
            add(audio="dst", comp=b"DST ", cname=b"DST Encoded", frames=v)
            add(version=v)
        for v in edges(16):
            add(audio="dst", comp=b"DST ", cname=b"DST Encoded", frate=v)
        for ch in [0, 1, 2, 3, 4, 5, 6, 7, 8, 255, 256, 1000]:
            add(ch=ch)
            add(ch=ch, audio="dst", comp=b"DST ", cname=b"DST Encoded")
        for n in [0, 1, 2, 3, 7, 8, 9, 1000, 1001]:
            add(n=n)
            add(n=n, ch=3)
        for k in [0, 1, 2, 5]:
            add(audio="dst", comp=b"DST ", cname=b"DST Encoded", dstf=k)
        for comp in [b"DSD ", b"DST ", b"DSD\0", b"dsd ", b"XYZ ", b"    ", b"DST\t", b"D\xffD "]:
            add(comp=comp)
            add(comp=comp, audio="dst")
        for cname in [b"", b"x", b"xy", b"not compressed!"]:
            add(cname=cname)
        add(pextra=((b"ABSS", b"\0" * 8), (b"LSCO", b"\0\3")))
        add(pextra=((b"FS  ", struct.pack(">L", 1)),))
        add(pextra=((b"CMPR", b"DST \0"),))
        add(after=((b"COMT", b"\0\0"), (b"DIIN", b""), (b"ID3 ", b"ID3\4\0\0\0\0\0\0")))
        add(after=((b"DSD ", b"12345678"),))
        for _ in range(30 * scale):
            if rng.random() < 0.5:
                add(rate=rng.choice([2822400, 5644800, rng.getrandbits(32)]), ch=rng.choice([1, 2, 5, 6, rng.randrange(300)]), n=rng.randrange(100))
            else:
                add(rate=rng.choice([2822400, rng.getrandbits(32)]), ch=rng.choice([1, 2, 5, 6]), audio="dst", comp=b"DST ", cname=b"DST Encoded",
                    frames=rng.getrandbits(rng.randint(1, 32)), frate=rng.choice([75, 75, rng.getrandbits(16)]), dstf=rng.randrange(4))
        return out

    def damaged(self, rng, goods, scale):
        out = []
        for g in goods[:3 + scale] + [x for x in goods if b"FRTE" in x][:2]:
            mg = [(0, b"FRM4"), (0, b"FORM"), (12, b"DSD\xff"), (12, b"XXXX"), (16, b"fver"), (32, b"PROX"), (32, b"prop"), (44, b"SND\0"), (44, b"snd "),
                  (44, b"SN\xff "), (48, b"FS\0\0"), (48, b"FS \t"), (48, b"fs  ")]
            for off in (4, 20, 36, 52):
                mg += [(off, struct.pack(">Q", v)) for v in (0, 1, 3, 4, 5, 11, 12, 13, 1 << 32, (1 << 64) - 1)]
            out += damage(rng, g, magics=mg, every_prefix=140, n_random=10)
            for key in (b"CHNL", b"CMPR", b"DSD ", b"DST ", b"FRTE", b"FS  "):
                i = g.find(key, 16)
                if i > 0:
                    for v in (0, 1, 2, 3, 4, 5, 6, 7, 100, 1 << 40, (1 << 64) - 1):
                        out.append(("size-of-" + key.decode().strip(), g[:i + 4] + struct.pack(">Q", v) + g[i + 12:]))
                    out.append(("id-of-" + key.decode().strip(), g[:i] + key.lower() + g[i + 4:]))
                    out.append(("cut-in-" + key.decode().strip(), g[:i + 12 + rng.randrange(0, 7)]))
        out.append(("empty", b""))
        return out


# ======================================================================================
# Ogg codecs

def ogg_page(packets, serial, seq, granule, flags=0, complete=True, version=0, crc=None):
    lacing = []
    for i, pk in enumerate(packets):
        lacing += [255] * (len(pk) // 255) + [len(pk) % 255]
    if not complete and lacing and lacing[-1] == 0:
        lacing.pop()
    lacing = lacing[:255]
    hdr = b"OggS" + bytes([version, flags]) + struct.pack("<q", granule) + struct.pack("<II", serial & 0xFFFFFFFF, seq & 0xFFFFFFFF) + b"\0\0\0\0"
    page = hdr + bytes([len(lacing)]) + bytes(lacing) + b"".join(packets)
    from gen import headers_more as H
    c = H._ogg_crc(page) if crc is None else crc
    return page[:22] + struct.pack("<I", c) + page[26:]


class OggTie(KindTie):
    info_path = None            # module, class
    file_path = None
    attr_names = ()
    ident_min = 0               # length thresholds of the identification packet worth probing

    def _info(self):
        mod, name = self.info_path
        return getattr(importlib.import_module(mod), name)

    def attrs_of(self, i):
        return {a: getattr(i, a) for a in self.attr_names}

    def real(self, data):
        f = io.BytesIO(data)
        i = self._info()(f)
        i._post_tags(f)
        return self.attrs_of(i)

    def public(self, data):
        mod, name = self.file_path
        return self.attrs_of(getattr(importlib.import_module(mod), name)(io.BytesIO(data)).info)

    def header_packets(self):
        """the packets that follow the identification packet in a loadable file of this codec"""
        from gen import headers_more as H
        vc = H._vcomment()
        return {"OggVorbis": [b"\x03vorbis" + H._vcomment(framing=True), b"\x05vorbis" + H._filler(40)],
                "OggOpus": [b"OpusTags" + vc], "OggSpeex": [vc],
                "OggTheora": [b"\x81theora" + vc, b"\x82theora" + H._filler(40)],
                "OggFLAC": [bytes([0x84]) + struct.pack(">I", len(vc))[1:] + vc]}[self.name]

    def ident_of(self, good):
        """the identification packet of a headers_more file (first page, single packet)"""
        nseg = good[26]
        n = sum(good[27:27 + nseg])
        return good[27 + nseg:27 + nseg + n]

    def damaged(self, rng, goods, scale):
        out = []
        for g in goods[:2 + scale]:
            out += damage(rng, g, magics=[(0, b"OggX"), (4, b"\1"), (5, b"\0"), (5, b"\4"), (5, b"\xff"), (26, b"\0"), (26, b"\2"), (26, b"\xff"), (27, b"\0"), (27, b"\xff")],
                          every_prefix=140, n_random=12)
        for g in goods[:6 + 2 * scale]:
            ident = self.ident_of(g)
            serial = struct.unpack("<I", g[14:18])[0]
            first_len = 27 + g[26] + len(ident)
            tail = g[first_len:]
            other = 0x0BADF00D if serial != 0x0BADF00D else 7
            foreign = ogg_page([b"\x01video-ish" + rbytes(rng, 20)], other, 0, 0, flags=2)
            foreign_mid = ogg_page([rbytes(rng, 30)], other, 1, 555, flags=0)
            foreign_last = ogg_page([rbytes(rng, 30)], other, 2, 777, flags=4)
            out += [
                ("mux-foreign-first", foreign + g),
                ("mux-foreign-mid", g[:first_len] + foreign_mid + tail),
                ("mux-foreign-last", g + foreign_last),
                ("mux-both", foreign + g[:first_len] + foreign_mid + tail + foreign_last),
                ("ident-not-bos", ogg_page([ident], serial, 0, 0, flags=0) + tail),
                ("ident-continued", ogg_page([ident], serial, 0, 0, flags=3) + tail),
                ("ident-second-packet", ogg_page([b"xx", ident], serial, 0, 0, flags=2) + tail),
                ("ident-second-page", ogg_page([b"junk"], serial, 0, 0, flags=2) + ogg_page([ident], serial, 1, 0, flags=2) + tail),
                ("empty-first-page", ogg_page([], serial, 0, 0, flags=2) + g),
                ("empty-first-page-then-bos", ogg_page([], serial, 0, 0, flags=0) + g),
                ("only-ident", g[:first_len]),
                ("ident-twice", g[:first_len] + g),
                ("no-eos", g[:first_len] + ogg_page([b"abc"], serial, 1, 0) + ogg_page([b"abc", b"de"], serial, 2, 12345)),
                ("eos-early", g[:first_len] + ogg_page([b"abc"], serial, 1, 1000, flags=4) + ogg_page([b"abc"], serial, 2, 2000, flags=4)),
                ("last-granule-minus1", g[:first_len] + ogg_page([b"abc"], serial, 1, 500) + ogg_page([b"z" * 255], serial, 2, -1, flags=4, complete=False)),
                ("all-granule-minus1", g[:first_len] + ogg_page([b"abc"], serial, 1, -1, flags=4)),
                ("negative-granule", g[:first_len] + ogg_page([b"abc"], serial, 1, -12345, flags=4)),
                ("min-granule", g[:first_len] + ogg_page([b"abc"], serial, 1, -(1 << 63), flags=4)),
                ("max-granule", g[:first_len] + ogg_page([b"abc"], serial, 1, (1 << 63) - 1, flags=4)),
                ("sync-in-payload", g[:first_len] + ogg_page([b"abc"], serial, 1, 4000) + ogg_page([b"xxOggSyy" + rbytes(rng, 40)], serial, 2, 9000, flags=4)),
                ("fake-last-page-in-payload", g[:first_len] + ogg_page([b"abc"], serial, 1, 4000) +
                 ogg_page([b"pad" + ogg_page([b"q"], serial, 9, 123456789, flags=4)], serial, 2, 9000, flags=4)),
                ("fake-page-not-last-in-payload", g[:first_len] + ogg_page([b"abc"], serial, 1, 4000) +
                 ogg_page([b"pad" + ogg_page([b"q"], serial, 9, 123456789, flags=0)], serial, 2, 9000, flags=4)),
                ("fake-other-serial-in-payload", g[:first_len] + ogg_page([b"abc"], serial, 1, 4000) +
                 ogg_page([b"pad" + ogg_page([b"q"], other, 9, 123456789, flags=4)], serial, 2, 9000, flags=4)),
                ("junk-after", g + b"\0" * 9), ("junk-with-sync-after", g + b"OggS\0\0"), ("junk-before", b"ID3junk" + g),
                ("big-last-page", g[:first_len] + ogg_page([rbytes(rng, 255 * 200)], serial, 1, 4242, flags=4)),
                ("far-last-page", g[:first_len] + ogg_page([b"abc"], serial, 1, 4000, flags=4) + ogg_page([rbytes(rng, 255 * 254 + 200)], other, 0, 1, flags=2) +
                 ogg_page([rbytes(rng, 255 * 254 + 200)], other, 1, 2, flags=4)),
                ("version1-page-mid", g[:first_len] + ogg_page([b"abc"], serial, 1, 4000, version=1) + ogg_page([b"abc"], serial, 2, 8000, flags=4)),
            ]
            for n in sorted(set([0, 1, len(ident) - 1, len(ident) + 1, len(ident) + 50] + list(range(max(0, self.ident_min - 3), self.ident_min + 3)) +
                                [rng.randrange(len(ident) + 1) for _ in range(4)])):
                cut = (ident + b"\0" * 64)[:n] if n > len(ident) else ident[:n]
                out.append(("ident-length-%d" % n, ogg_page([cut], serial, 0, 0, flags=2) + tail))
            for _ in range(10 * scale):
                b = bytearray(ident)
                for _ in range(rng.choice([1, 2, 4])):
                    b[rng.randrange(len(b))] = rng.choice([0, 1, 0x7F, 0x80, 0xFF, rng.randrange(256)])
                out.append(("ident-flip", ogg_page([bytes(b)], serial, 0, 0, flags=2) + tail))
        out.append(("empty", b""))
        return out


def hm_container(serial, header_packets, audio, granules):
    """the container fields of a headers_more._ogg_stream"""
    from gen import headers_more as H
    pages = [H._ogg_page(header_packets, serial, 1, 0)]
    for i, g in enumerate(granules[:-1]):
        pages.append(H._ogg_page([audio, audio], serial, 2 + i, g))
    return dict(serial=serial, middle=b"".join(pages), lseq=2 + len(granules) - 1, lgran=granules[-1],
                lpk=",".join(x.hex() if x else "." for x in [audio, audio]))


def own_container(rng, serial=None, gran=None, big=False):
    serial = rng.getrandbits(32) if serial is None else serial
    mid = ogg_page([rbytes(rng, rng.randrange(1, 40))], serial, 1, 0) + ogg_page([rbytes(rng, 5)], serial ^ 1, 0, 77, flags=2)
    pk = [bytes(x & 0x3F for x in rbytes(rng, rng.randrange(0, 600 if big else 60))) for _ in range(rng.randrange(0, 4))]
    return dict(serial=serial, middle=mid, lseq=rng.getrandbits(8), lgran=rng.getrandbits(rng.randint(1, 63)) if gran is None else gran,
                lpk=",".join(x.hex() if x else "." for x in pk) if pk else "-")


@register
class OggVorbisTie(OggTie):
    name = "OggVorbis"
    hm_kinds = ("OggVorbis",)
    info_path = ("mutagen.oggvorbis", "OggVorbisInfo")
    file_path = ("mutagen.oggvorbis", "OggVorbis")
    attr_names = ("channels", "sample_rate", "bitrate", "serial", "length")
    ident_min = 28

    def fields_of(self, kind, p, data):
        from gen import headers_more as H
        d = dict(kind="OggVorbis", ch=p["channels"], rate=p["rate"], brmax=p["br_max"], brnom=p["br_nominal"], brmin=p["br_min"],
                 bs0=p["blocksize_0"], bs1=p["blocksize_1"])
        d.update(hm_container(p["serial"], [b"\x03vorbis" + H._vcomment(framing=True), b"\x05vorbis" + H._filler(40)], b"\x00" + H._filler(9),
                              H._granules(p["last_granule"], p["pages"])))
        return d

    def lattice(self, rng, scale):
        out = []

        def add(ch=2, rate=44100, mx=0, nom=128000, mn=0, bs0=8, bs1=11, **kw):
            d = dict(kind="OggVorbis", ch=ch, rate=rate, brmax=mx, brnom=nom, brmin=mn, bs0=bs0, bs1=bs1)
            d.update(own_container(rng, **kw))
            out.append(d)
        for v in edges(8):
            add(ch=v)
        for v in edges(32):
            add(rate=v)
            add(serial=v)
        brs = [-(1 << 31), -(1 << 31) + 1, -2, -1, 0, 1, 2, 1000, 127999, 128000, 128001, (1 << 31) - 2, (1 << 31) - 1]
        for a in brs:
            for b in brs:
                add(mx=a, nom=b, mn=rng.choice(brs))
                add(mx=rng.choice(brs), nom=a, mn=b)
        for g in edges(63):
            add(gran=g)
        for b0, b1 in [(6, 6), (6, 13), (13, 13), (5, 9), (9, 8), (13, 14), (0, 0), (15, 15)]:
            add(bs0=b0, bs1=b1)
        for _ in range(20 * scale):
            add(ch=rng.randrange(256), rate=rng.getrandbits(32), mx=rng.choice(brs + [rng.getrandbits(31)]), nom=rng.choice(brs + [rng.getrandbits(31)]),
                mn=rng.choice(brs + [rng.getrandbits(31)]), big=True)
        return out


@register
class OggOpusTie(OggTie):
    name = "OggOpus"
    hm_kinds = ("OggOpus",)
    info_path = ("mutagen.oggopus", "OggOpusInfo")
    file_path = ("mutagen.oggopus", "OggOpus")
    attr_names = ("channels", "serial", "length")
    ident_min = 19

    def fields_of(self, kind, p, data):
        from gen import headers_more as H
        ch = p["channels"]
        table = b""
        if p["family"] != 0:
            coupled = ch // 2 if p["family"] == 1 else 0
            table = bytes([ch - coupled, coupled]) + bytes(range(ch))
        d = dict(kind="OggOpus", version=p["version"], ch=ch, preskip=p["pre_skip"], rate=p["input_rate"], gain=p["gain"], family=p["family"], table=table)
        d.update(hm_container(p["serial"], [b"OpusTags" + H._vcomment()], b"\xf8\xff\xfe", H._granules(p["last_granule"], p["pages"])))
        return d

    def lattice(self, rng, scale):
        out = []

        def add(version=1, ch=2, preskip=312, rate=48000, gain=0, family=0, table=b"", **kw):
            d = dict(kind="OggOpus", version=version, ch=ch, preskip=preskip, rate=rate, gain=gain, family=family, table=table)
            d.update(own_container(rng, **kw))
            out.append(d)
        for v in edges(8):
            add(version=v)
            add(ch=v)
            add(family=v, table=rbytes(rng, 4))
        for v in edges(16):
            add(preskip=v)
            add(preskip=v, gran=v)
            add(preskip=v, gran=max(0, v - 1))
            add(gain=v - 32768)
        for v in edges(32):
            add(rate=v)
            add(serial=v)
        for g in edges(63):
            add(gran=g)
            add(gran=g, preskip=65535)
        for _ in range(20 * scale):
            add(version=rng.choice([0, 1, 15, 16, rng.randrange(256)]), ch=rng.randrange(256), preskip=rng.getrandbits(16), gain=rng.randrange(-32768, 32768), big=True)
        return out


@register
class OggSpeexTie(OggTie):
    name = "OggSpeex"
    hm_kinds = ("OggSpeex",)
    info_path = ("mutagen.oggspeex", "OggSpeexInfo")
    file_path = ("mutagen.oggspeex", "OggSpeex")
    attr_names = ("sample_rate", "channels", "bitrate", "serial", "length")
    ident_min = 54

    def fields_of(self, kind, p, data):
        from gen import headers_more as H
        d = dict(kind="OggSpeex", vstr=b"1.2.1".ljust(20, b"\x00"), vid=1, hsize=80, rate=p["rate"], mode=p["mode"], mbv=4, ch=p["channels"],
                 br=p["bitrate"], rest=struct.pack("<iiiiii", p["frame_size"], p["vbr"], p["frames_per_packet"], 0, 0, 0))
        d.update(hm_container(p["serial"], [H._vcomment()], H._filler(20), H._granules(p["last_granule"], p["pages"])))
        return d

    def lattice(self, rng, scale):
        out = []

        def add(vstr=None, vid=1, hsize=80, rate=16000, mode=1, mbv=4, ch=1, br=-1, rest=None, **kw):
            d = dict(kind="OggSpeex", vstr=rbytes(rng, 20) if vstr is None else vstr, vid=vid, hsize=hsize, rate=rate, mode=mode, mbv=mbv, ch=ch, br=br,
                     rest=rbytes(rng, 24) if rest is None else rest)
            d.update(own_container(rng, **kw))
            out.append(d)
        for v in edges(32):
            add(rate=v)
            add(ch=v)
            add(br=v - (1 << 31))
            add(vid=v)
            add(mode=v, mbv=v, hsize=v)
            add(serial=v)
        for g in edges(63):
            add(gran=g)
        for n in (0, 19, 21):
            add(vstr=rbytes(rng, n))
        for n in (0, 3, 23, 25):
            add(rest=rbytes(rng, n))
        for _ in range(20 * scale):
            add(rate=rng.getrandbits(31), ch=rng.getrandbits(31), br=rng.randrange(-(1 << 31), 1 << 31), big=True)
        return out


@register
class OggTheoraTie(OggTie):
    name = "OggTheora"
    hm_kinds = ("OggTheora",)
    info_path = ("mutagen.oggtheora", "OggTheoraInfo")
    file_path = ("mutagen.oggtheora", "OggTheora")
    attr_names = ("fps", "bitrate", "granule_shift", "serial", "length")
    ident_min = 42

    def fields_of(self, kind, p, data):
        from gen import headers_more as H
        w, h = p["pic_w"], p["pic_h"]
        shift = p["kfgshift"]
        last = (p["last_keyframe"] << shift) | p["last_offset"]
        d = dict(kind="OggTheora", vrev=p["vrev"], fmbw=(w + 15) // 16, fmbh=(h + 15) // 16, picw=w, pich=h, picx=0, picy=0, frn=p["frn"], frd=p["frd"],
                 parn=1, pard=1, cs=0, nombr=p["nombr"], qual=p["qual"], kfgshift=shift, pf=p["pf"], lkf=p["last_keyframe"], loff=p["last_offset"])
        d.update(hm_container(p["serial"], [b"\x81theora" + H._vcomment(), b"\x82theora" + H._filler(40)], b"\x00" + H._filler(5), [last]))
        return d

    def lattice(self, rng, scale):
        out = []

        def add(vrev=1, fmbw=20, fmbh=15, picw=320, pich=240, picx=0, picy=0, frn=25, frd=1, parn=1, pard=1, cs=0, nombr=0, qual=32, shift=6, pf=0,
                kf=100, off=3, gran=None, **kw):
            d = dict(kind="OggTheora", vrev=vrev, fmbw=fmbw, fmbh=fmbh, picw=picw, pich=pich, picx=picx, picy=picy, frn=frn, frd=frd, parn=parn, pard=pard,
                     cs=cs, nombr=nombr, qual=qual, kfgshift=shift, pf=pf, lkf=kf, loff=off)
            d.update(own_container(rng, gran=((kf << shift) + off) if gran is None else gran, **kw))
            out.append(d)
        for v in edges(8):
            add(vrev=v)
            add(picx=v, picy=v, cs=v)
        for v in edges(16):
            add(fmbw=v, fmbh=v)
        for v in edges(24):
            add(picw=v, pich=v)
            add(parn=v, pard=v)
            add(nombr=v)
        for v in edges(32):
            add(frn=v)
            add(frd=v)
            add(frn=v, frd=v)
            add(serial=v)
        for sh in range(32):
            add(shift=sh, kf=rng.getrandbits(min(30, 62 - sh)) + 1, off=rng.getrandbits(sh) if sh else 0, vrev=sh % 3)
            add(shift=sh, kf=(1 << (63 - sh)) - 1, off=(1 << sh) - 1)
            add(shift=sh, kf=5, off=(1 << sh))            # offset too wide: not OK
        for q in (0, 1, 63, 64):
            for pf in (0, 1, 3, 4):
                add(qual=q, pf=pf)
        add(gran=12345, kf=1, off=1)                       # granule inconsistent with the fields: not OK
        for _ in range(20 * scale):
            sh = rng.randrange(32)
            add(vrev=rng.choice([0, 1, 1, 2]), frn=rng.getrandbits(32), frd=rng.getrandbits(32), nombr=rng.getrandbits(24), shift=sh,
                kf=rng.getrandbits(rng.randint(1, 62 - sh)), off=rng.getrandbits(sh) if sh else 0, big=True)
        return out


@register
class OggFlacTie(OggTie):
    name = "OggFLAC"
    hm_kinds = ("OggFLAC",)
    info_path = ("mutagen.oggflac", "OggFLACStreamInfo")
    file_path = ("mutagen.oggflac", "OggFLAC")
    attr_names = ("min_blocksize", "max_blocksize", "sample_rate", "channels", "bits_per_sample", "total_samples", "packets", "serial", "length")
    ident_min = 51

    def fields_of(self, kind, p, data):
        from gen import headers_more as H
        vc = H._vcomment()
        comment = bytes([0x84]) + struct.pack(">I", len(vc))[1:] + vc
        d = dict(kind="OggFLAC", nheaders=1, bhead=0, minbs=p["min_blocksize"], maxbs=p["max_blocksize"], minfs=p["min_framesize"], maxfs=p["max_framesize"],
                 rate=p["rate"], ch=p["channels"], bits=p["bits"], total=p["total_samples"], md5=int.from_bytes(bytes(range(16)), "big"))
        d.update(hm_container(p["serial"], [comment], b"\xff\xf8" + H._filler(12), H._granules(p["last_granule"], p["pages"])))
        return d

    def lattice(self, rng, scale):
        out = []

        def add(nheaders=1, bhead=0, minbs=4096, maxbs=4096, minfs=14, maxfs=9000, rate=44100, ch=2, bits=16, total=1000, md5=0, **kw):
            d = dict(kind="OggFLAC", nheaders=nheaders, bhead=bhead, minbs=minbs, maxbs=maxbs, minfs=minfs, maxfs=maxfs, rate=rate, ch=ch, bits=bits,
                     total=total, md5=md5)
            d.update(own_container(rng, **kw))
            out.append(d)
        for v in edges(16):
            add(nheaders=v)
            add(minbs=v, maxbs=v)
        for v in edges(24):
            add(minfs=v, maxfs=v)
        for v in edges(20):
            add(rate=v)
            add(rate=v, total=0)
        for ch in range(0, 10):
            add(ch=ch)
        for bits in range(0, 34):
            add(bits=bits)
        for v in edges(36):
            add(total=v)
        for g in edges(63):
            add(total=0, gran=g)
        for v in edges(32):
            add(serial=v)
        for bh in (0, 128, 1, 4, 132, 255):
            add(bhead=bh)
        add(md5=(1 << 128) - 1)
        for _ in range(20 * scale):
            add(rate=rng.getrandbits(20), ch=rng.randint(1, 8), bits=rng.randint(1, 32), total=rng.choice([0, rng.getrandbits(36)]), md5=rng.getrandbits(128), big=True)
        return out


# ======================================================================================
# ASF

def asf_items(items):
    """items: ('f', guid, data) / ('c', data) / ('e', data) / ('p', data) / ('x', [subs]) with subs ('f', guid, data) / ('m', d) / ('l', d) / ('p', d)"""
    def h(b):
        return b.hex() if b else "."
    out = []
    for it in items:
        if it[0] == "x":
            out.append("x:" + ";".join(":".join([s[0]] + [h(x) for x in s[1:]]) for s in it[1]))
        else:
            out.append(":".join([it[0]] + [h(x) for x in it[1:]]))
    return ",".join(out) if out else "-"


@register
class AsfTie(KindTie):
    name = "ASF"
    hm_kinds = ("ASF",)

    @staticmethod
    def attrs_of(i):
        return dict(length=i.length, sample_rate=i.sample_rate, bitrate=i.bitrate, channels=i.channels)

    def real(self, data):
        from mutagen.asf import ASF
        return self.attrs_of(ASF(io.BytesIO(data)).info)

    def fields_of(self, kind, p, data):
        from gen import headers_more as H
        file_id = bytes(range(16))
        extra = H._filler(p["codec_extra"])
        if p["error_correction"]:
            ec_guid, ec = H._ASF_AUDIO_SPREAD, struct.pack("<BHHH", 1, p["block_align"], p["block_align"], 0)
        else:
            ec_guid, ec = H._ASF_NO_EC, b""
        bih = struct.pack("<IiiHH4sIiiII", 40, p["video_width"], p["video_height"], 1, 24, b"WMV3", 0, 0, 0, 0, 0)
        vdata = struct.pack("<IIBH", p["video_width"], p["video_height"], 2, len(bih)) + bih
        video = ("f", H._ASF_STREAM_PROPS, H._ASF_VIDEO_MEDIA + H._ASF_NO_EC + struct.pack("<QIIHI", 0, len(vdata), 0, p["stream_number"] % 127 + 1, 0) + vdata)
        ext = ("x", [])
        between, after = [], [ext]
        if p["streams"] == "audio-video":
            after = [video, ext]
        elif p["streams"] == "video-audio":
            between = [video]
        data_obj = H._asf_obj(H._ASF_DATA, file_id + struct.pack("<QH", 0, 0x0101))
        return dict(kind="ASF", fileid=file_id, fsize=len(data), cdate=0, npackets=0, play=p["play_duration"], send=p["play_duration"], preroll=p["preroll"],
                    flags=2, minpkt=3200, maxpkt=3200, maxbr=p["avg_bytes"] * 8 & 0xFFFFFFFF, ectype=ec_guid, toff=0, sflags=p["stream_number"], sres=0,
                    tag=p["format_tag"], ch=p["channels"], rate=p["rate"], avg=p["avg_bytes"], align=p["block_align"], bits=p["bits"], cdata=extra, ecdata=ec,
                    before="-", between=asf_items(between), after=asf_items(after), rest=data_obj)

    def lattice(self, rng, scale):
        from gen import headers_more as H
        out = []
        cd = ("c", b"\0" * 10)
        cd2 = ("c", struct.pack("<5H", 4, 0, 0, 0, 0) + "A\0".encode("utf-16-le"))
        ecd = ("e", b"\0\0")
        unknown = ("f", bytes(range(100, 116)), b"whatever")
        video = ("f", H._ASF_STREAM_PROPS, H._ASF_VIDEO_MEDIA + H._ASF_NO_EC + b"\0" * 30)
        fp2 = ("f", H._ASF_FILE_PROPS, b"\0" * 40 + struct.pack("<QQQ", 5 * 10**7, 0, 0) + b"\0" * 16)
        audio2 = ("f", H._ASF_STREAM_PROPS, H._ASF_AUDIO_MEDIA + b"\0" * 40 + struct.pack("<HII", 1, 8000, 1000) + b"\0" * 8)
        ext_full = ("x", [("m", b"\0\0"), ("l", b"\0\0"), ("p", b"\0" * 7), ("f", bytes(range(200, 216)), b"")])
        ext_audio = ("x", [audio2])
        ext_fp = ("x", [fp2])

        def add(fileid=None, fsize=1000, cdate=0, npackets=0, play=10**9, send=0, preroll=0, flags=2, minpkt=3200, maxpkt=3200, maxbr=128000, ectype=None,
                toff=0, sflags=1, sres=0, tag=0x161, ch=2, rate=44100, avg=16000, align=2230, bits=16, cdata=b"", ecdata=b"", before=(), between=(), after=(),
                rest=b""):
            out.append(dict(kind="ASF", fileid=bytes(range(16)) if fileid is None else fileid, fsize=fsize, cdate=cdate, npackets=npackets, play=play, send=send,
                            preroll=preroll, flags=flags, minpkt=minpkt, maxpkt=maxpkt, maxbr=maxbr, ectype=H._ASF_NO_EC if ectype is None else ectype,
                            toff=toff, sflags=sflags, sres=sres, tag=tag, ch=ch, rate=rate, avg=avg, align=align, bits=bits, cdata=cdata, ecdata=ecdata,
                            before=asf_items(list(before)), between=asf_items(list(between)), after=asf_items(list(after)), rest=rest))
        for v in edges(64):
            add(play=v)
            add(preroll=v)
            add(play=v, preroll=rng.choice([0, 1, 1000, v // 10000, v // 10000 + 1]))
            add(fsize=v, cdate=v, npackets=v, send=v, toff=v)
        for v in edges(32):
            add(rate=v)
            add(avg=v)
            add(flags=v, minpkt=v, maxpkt=v, maxbr=v, sres=v)
        for v in edges(16):
            add(ch=v)
            add(tag=v, align=v, bits=v, sflags=v)
        for n in (0, 1, 2, 10, 255):
            add(cdata=rbytes(rng, n), ecdata=rbytes(rng, n // 2))
        add(before=[cd, ecd], between=[unknown, video], after=[ext_full, ("p", b"\0" * 33)])
        add(before=[ext_full], between=[cd2], after=[video])
        add(before=[video], after=[ext_full, unknown], rest=rbytes(rng, 50))
        add(before=[fp2])
        add(after=[fp2])
        add(after=[audio2])
        add(before=[audio2])
        add(after=[ext_audio])
        add(before=[ext_fp])
        add(fileid=b"short")
        add(ectype=b"")
        for _ in range(30 * scale):
            add(play=rng.getrandbits(rng.randint(1, 64)), preroll=rng.choice([0, rng.getrandbits(rng.randint(1, 40))]), ch=rng.getrandbits(16), rate=rng.getrandbits(32),
                avg=rng.getrandbits(32), cdata=rbytes(rng, rng.randrange(20)), before=rng.choice([[], [cd], [unknown, ecd]]), between=rng.choice([[], [video], [ext_full]]),
                after=rng.choice([[], [ext_full], [cd2, ("p", b"\0" * 5)]]), rest=rbytes(rng, rng.randrange(40)))
        return out

    def damaged(self, rng, goods, scale):
        from gen import headers_more as H
        out = []
        for g in goods[:3 + scale] + goods[-3:]:
            mg = [(0, b"\0" * 16), (0, H._ASF_DATA), (30, H._ASF_HEADER), (30, H._ASF_HEADER_EXT), (28, b"\0\0"), (28, b"\xff\xff")]
            for v in (0, 1, 29, 30, 31, 53, 54, 55, len(g), len(g) + 1, 1 << 32, (1 << 64) - 1):
                mg.append((16, struct.pack("<Q", v)))
            for v in (0, 1, 2, 3, 4, 5, 100, 0xFFFFFFFF):
                mg.append((24, struct.pack("<I", v)))
            for v in (0, 1, 23, 24, 25, 63, 87, 88, 89, 103, 104, 105, 1000, 1 << 32, (1 << 63), (1 << 64) - 1):
                mg.append((46, struct.pack("<Q", v)))
            out += damage(rng, g, magics=mg, every_prefix=160, n_random=10)
            i = g.find(H._ASF_STREAM_PROPS)
            if i > 0:
                for v in (0, 23, 24, 25, 39, 40, 41, 79, 80, 81, 88, 89, 90, 91, 1000, (1 << 64) - 1):
                    out.append(("stream-props-size", g[:i + 16] + struct.pack("<Q", v) + g[i + 24:]))
                out.append(("stream-type-damaged", g[:i + 24] + b"\0" + g[i + 25:]))
            j = g.find(H._ASF_HEADER_EXT)
            if j > 0:
                nested = H._asf_obj(H._ASF_HEADER_EXT, H._ASF_RESERVED_1 + struct.pack("<HI", 6, 0))
                inner_fp = H._asf_obj(H._ASF_FILE_PROPS, b"\0" * 40 + struct.pack("<QQQ", 7 * 10**7, 0, 1000) + b"\0" * 16)
                inner_short = H._asf_obj(H._ASF_FILE_PROPS, b"\0" * 63)
                for label, body in (("nested-ext", nested), ("fp-in-ext", inner_fp), ("short-fp-in-ext", inner_short), ("junk-in-ext", b"\1" * 30),
                                    ("zero-size-in-ext", bytes(range(16)) + struct.pack("<Q", 0)), ("header-in-ext", H._asf_obj(H._ASF_HEADER, b"\0" * 6))):
                    ext = H._asf_obj(H._ASF_HEADER_EXT, H._ASF_RESERVED_1 + struct.pack("<HI", 6, len(body)) + body)
                    old_len = struct.unpack("<Q", g[j + 16:j + 24])[0]
                    ng = g[:j] + ext + g[j + old_len:]
                    hsize = struct.unpack("<Q", ng[16:24])[0] + len(ext) - old_len
                    out.append((label, ng[:16] + struct.pack("<Q", hsize) + ng[24:]))
        out.append(("empty", b""))
        return out


# ======================================================================================
# MP4: the two payload decoders (mdhd, AudioSampleEntry)

def mp4_atom(name, payload):
    return struct.pack(">I4s", 8 + len(payload), name) + payload


@register
class Mp4MdhdTie(KindTie):
    """`infob kind=MP4mdhd data=<mdhd payload>`; the real code: MP4Info(Atoms(f), f) on a minimal file around that payload"""
    name = "MP4mdhd"
    hm_kinds = ()
    hm_files = ("MP4_AAC", "MP4_ALAC", "MP4_AC3")

    @staticmethod
    def wrap(payload):
        hdlr = mp4_atom(b"hdlr", b"\0" * 8 + b"soun" + b"\0" * 13)
        return mp4_atom(b"ftyp", b"M4A \0\0\0\0") + mp4_atom(b"moov", mp4_atom(b"trak", mp4_atom(b"mdia", mp4_atom(b"mdhd", payload) + hdlr)))

    def real(self, payload):
        from mutagen.mp4 import MP4Info, Atoms
        f = io.BytesIO(self.wrap(payload))
        return dict(length=MP4Info(Atoms(f), f).length)

    def hm_payload(self, data):
        i = data.find(b"mdhd")
        n = struct.unpack(">I", data[i - 4:i])[0]
        return data[i + 4:i - 4 + n]

    def fields_of(self, kind, p, data):
        return None

    def lattice(self, rng, scale):
        out = []

        def add(version=0, flags=0, ctime=0, mtime=0, timescale=44100, duration=1000, lang=0x55C4, predef=0):
            out.append(dict(kind="MP4mdhd", version=version, flags=flags, ctime=ctime, mtime=mtime, timescale=timescale, duration=duration, lang=lang, predef=predef))
        for ver in (0, 1):
            w = 64 if ver else 32
            for v in edges(32):
                add(version=ver, timescale=v)
            for v in edges(w):
                add(version=ver, duration=v)
                add(version=ver, ctime=v, mtime=v)
            for v in edges(24):
                add(version=ver, flags=v)
            for v in edges(16):
                add(version=ver, lang=v, predef=v)
        for ver in (2, 3, 255):
            add(version=ver)
        add(version=0, duration=1 << 32)
        for _ in range(30 * scale):
            ver = rng.choice([0, 1])
            add(version=ver, timescale=rng.getrandbits(32), duration=rng.getrandbits(64 if ver else 32), flags=rng.getrandbits(24))
        return out

    def damaged(self, rng, goods, scale):
        from gen import headers_more as H
        out = []
        # the mdhd payloads of headers_more's MP4 files (through the info class on the minimal file AND, below, through MP4())
        for kind in self.hm_files:
            fn = dict(H._CASE_FUNCS)[kind]
            for params in fn(rng, scale)[:40 * scale]:
                data, expect = H.BUILDERS[kind](params)
                out.append(("hm-payload", self.hm_payload(data)))
        for g in goods[:4 + scale]:
            out += damage(rng, g, magics=[(0, b"\2"), (0, b"\xff")], every_prefix=40, n_random=8)
        out.append(("empty", b""))
        return out


    def extra(self, ctx, scale):
        """the mdhd payload of every headers_more MP4 file: the model's length against MP4(file).info.length"""
        from gen import headers_more as H
        from mutagen.mp4 import MP4
        files = []
        for kind in self.hm_files:
            fn = dict(H._CASE_FUNCS)[kind]
            for params in fn(ctx.rng, scale):
                data, expect = H.BUILDERS[kind](params)
                files.append((kind, params, data))
        ans = ctx.driver.ask(["infob kind=MP4mdhd data=%s" % hx(self.hm_payload(d)) for _, _, d in files])
        for (kind, params, data), a in zip(files, ans):
            k, r = timed(lambda: MP4(io.BytesIO(data)).info.length, 20)
            ctx.case(key=("infob", "MP4mdhd", "hm-public", kind, len(ctx.nontrivial)), nontrivial=(k == "ok"), modelled=True)
            ctx.hist["infob:MP4mdhd:hm-public:%s" % k] += 1
            compare(ctx, self, "public MP4()", dict(kind=kind, params=params), a, "ok" if k == "ok" else classify(r), dict(length=r) if k == "ok" else {})
        return len(files)


@register
class Mp4Tie(KindTie):
    """`infob kind=MP4 data=<file>`: Atoms + MP4Info.load under the handlers of MP4.load"""
    name = "MP4"
    hm_kinds = ("MP4_AAC", "MP4_ALAC", "MP4_AC3")

    @staticmethod
    def attrs_of(i):
        return dict(length=i.length, channels=i.channels, bits_per_sample=i.bits_per_sample, sample_rate=i.sample_rate, bitrate=i.bitrate, codec=i.codec)

    def real(self, data):
        from mutagen.mp4 import Atoms, MP4Info, MP4NoTrackError, MP4StreamInfoError, error, AtomError
        f = io.BytesIO(data)
        try:
            atoms = Atoms(f)
        except AtomError as err:
            raise error(err)
        info = MP4Info()
        try:                                   # the handlers of MP4.load
            info.load(atoms, f)
        except MP4NoTrackError:
            pass
        except error:
            raise
        except Exception as err:
            raise MP4StreamInfoError(err)
        return self.attrs_of(info)

    def public(self, data):
        from mutagen.mp4 import MP4
        return self.attrs_of(MP4(io.BytesIO(data)).info)

    @staticmethod
    def atoms_of(b):
        """[(name, payload, raw)] of a box sequence (32-bit sizes)"""
        out = []; i = 0
        while i + 8 <= len(b):
            n = struct.unpack(">I", b[i:i + 4])[0]
            out.append((b[i + 4:i + 8], b[i + 8:i + n], b[i:i + n])); i += n
        return out, b[i:]

    def decompose(self, data):
        """a file of the shape Spec/Info/Mp4.lean builds -> the driver's field dict (None: another shape)"""
        try:
            top, tail = self.atoms_of(data)
            names = [a[0] for a in top]
            k = names.index(b"moov")
            mk, _ = self.atoms_of(top[k][1])
            t = [a[0] for a in mk].index(b"trak")
            tk, _ = self.atoms_of(mk[t][1])
            m = [a[0] for a in tk].index(b"mdia")
            md, _ = self.atoms_of(tk[m][1])
            if [a[0] for a in md] != [b"mdhd", b"hdlr", b"minf"]:
                return None
            mdhd, hdlr = md[0][1], md[1][1]
            if hdlr[8:12] != b"soun":
                return None
            mi, _ = self.atoms_of(md[2][1])
            if mi[-1][0] != b"stbl":
                return None
            sb, _ = self.atoms_of(mi[-1][1])
            if sb[0][0] != b"stsd":
                return None
            stsd = sb[0][1]
            ents, more = self.atoms_of(stsd[8:])
            ename, epl, eraw = ents[0]
            kids, emore = self.atoms_of(epl[28:])
            xname, xpl, xraw = kids[0]
        except (ValueError, IndexError, struct.error):
            return None
        j = lambda atoms: b"".join(a[2] for a in atoms)
        ver = mdhd[0]
        if ver == 1:
            ct, mt, ts, du, lang, pre = struct.unpack(">QQIQHH", mdhd[4:36])
        else:
            ct, mt, ts, du, lang, pre = struct.unpack(">IIIIHH", mdhd[4:24])
        dri, = struct.unpack(">H", epl[6:8])
        ch, bits, epre, eres, rate = struct.unpack(">HHHHI", epl[16:28])
        d = dict(kind="MP4", before=j(top[:k]), after=j(top[k + 1:]), tail=tail, moovbefore=j(mk[:t]), moovafter=j(mk[t + 1:]), trakbefore=j(tk[:m]), trakafter=j(tk[m + 1:]),
                 version=ver, flags=int.from_bytes(mdhd[1:4], "big"), ctime=ct, mtime=mt, timescale=ts, duration=du, lang=lang, predef=pre,
                 hdlrhead=hdlr[:8], hdlrrest=hdlr[12:], minfbefore=j(mi[:-1]), stblafter=j(sb[1:]), stsdflags=int.from_bytes(stsd[1:4], "big"),
                 entrycount=struct.unpack(">I", stsd[4:8])[0], dri=dri, ch=ch, bits=bits, epredef=epre, ereserved=eres, rate=rate >> 16, frac=rate & 0xFFFF,
                 entrymore=j(kids[1:]) + emore, moreentries=j(ents[1:]) + more)
        if ename == b"alac" and xname == b"alac" and len(xpl) == 28 and xpl[:4] == b"\0\0\0\0" and xpl[8] == 0:
            fl, cv, depth, pb, mb, kb, nch, maxrun, mfb, abr, arate = struct.unpack(">IBBBBBBHIII", xpl[4:])
            d.update(codec="alac", aframe=fl, adepth=depth, apb=pb, amb=mb, akb=kb, ach=nch, amaxrun=maxrun, amaxframe=mfb, abr=abr, arate=arate)
        elif ename == b"ac-3" and xname == b"dac3" and len(xpl) == 3:
            v = int.from_bytes(xpl, "big")
            d.update(codec="dac3", fscod=v >> 22, bsid=(v >> 17) & 31, bsmod=(v >> 14) & 7, acmod=(v >> 11) & 7, lfeon=(v >> 10) & 1, brc=(v >> 5) & 31, dres=v & 31)
        elif ename == b"mp4a" and xname == b"esds":
            e = self.esds_fields(xpl)
            if e is None:
                return None
            d.update(codec="esds", **e)
        elif (ename, xname) in ((b"mp4a", b"esds"), (b"alac", b"alac"), (b"ac-3", b"dac3")):
            return None
        else:
            d.update(codec="plain", ename=ename, extra=xraw)
        return d

    @staticmethod
    def esds_build(e):
        L = (lambda n: bytes([0x80, 0x80, 0x80, n])) if e["long"] else (lambda n: bytes([n]))
        if e["fidx"] == 15:
            asc = ((e["aot"] << 35) | (15 << 31) | (e["efreq"] << 7) | (e["cc"] << 3) | (e["flf"] << 2)).to_bytes(5, "big")
        else:
            asc = ((e["aot"] << 11) | (e["fidx"] << 7) | (e["cc"] << 3) | (e["flf"] << 2)).to_bytes(2, "big")
        dcd = bytes([0x40, 5 * 4 + e["upstream"] * 2 + 1]) + e["bufsize"].to_bytes(3, "big") + struct.pack(">II", e["maxbr"], e["avgbr"]) + bytes([5]) + L(len(asc)) + asc
        es = struct.pack(">HB", e["esid"], e["prio"]) + bytes([4]) + L(len(dcd)) + dcd + e["sl"]
        return b"\0\0\0\0" + bytes([3]) + L(len(es)) + es

    def esds_fields(self, xpl):
        """the fields of an esds payload of the shape Spec.Mp4Info.Esds describes (None: another shape)"""
        try:
            long = 1 if xpl[5] == 0x80 else 0
            k = 4 if long else 1
            es = xpl[5 + k:]
            esid, prio = struct.unpack(">HB", es[:3])
            dcd = es[4 + k:]
            oti, st = dcd[0], dcd[1]
            buf = int.from_bytes(dcd[2:5], "big")
            mx, avg = struct.unpack(">II", dcd[5:13])
            alen = dcd[13 + k]
            asc = dcd[14 + k:14 + k + alen]
            v = int.from_bytes(asc, "big")
            if alen == 2:
                aot, fidx, efreq, cc, flf = v >> 11, (v >> 7) & 15, 0, (v >> 3) & 15, (v >> 2) & 1
            elif alen == 5:
                aot, fidx, efreq, cc, flf = v >> 35, (v >> 31) & 15, (v >> 7) & 0xFFFFFF, (v >> 3) & 15, (v >> 2) & 1
            else:
                return None
            e = dict(long=long, esid=esid, prio=prio, upstream=(st >> 1) & 1, bufsize=buf, maxbr=mx, avgbr=avg, aot=aot, fidx=fidx, efreq=efreq, cc=cc, flf=flf,
                     sl=dcd[14 + k + alen:])
        except (IndexError, struct.error):
            return None
        if aot not in (1, 2, 3, 4, 7) or not (fidx < 13 or fidx == 15) or not 1 <= cc <= 7 or prio >= 32 or self.esds_build(e) != xpl:
            return None
        return e

    def fields_of(self, kind, p, data):
        return self.decompose(data)

    def lattice(self, rng, scale):
        out = []
        free = mp4_atom(b"free", b"")

        def add(*a, **kw):
            d = self.decompose(self.file_of(*a, **kw))
            if d is not None and (d.get("codec") != "dac3" or d["brc"] < 19):
                out.append(d)
        for v in edges(16):
            add(b"sowt", free, ch=v, bits=rng.getrandbits(16), rate=rng.getrandbits(16))
            add(b"twos", mp4_atom(b"wave", rbytes(rng, 5)) + free, bits=v)
            add(b"samr", free, rate=v)
        for name, x in [(b"mp4a", mp4_atom(b"wave", b"")), (b"alac", free), (b"ac-3", mp4_atom(b"dec3", b"abc")), (b"enca", mp4_atom(b"sinf", b"")), (b"mp4a", mp4_atom(b"udta", free)),
                        (b"\xa9abc", mp4_atom(b"meta", b"\0\0\0\0" + free))]:
            add(name, x)
        for ver, body in [(0, struct.pack(">IIII", 1, 2, 48000, 96000)), (1, struct.pack(">QQIQ", 1, 2, 48000, 1 << 40)), (0, struct.pack(">IIII", 0, 0, 1, 0xFFFFFFFF)),
                          (1, struct.pack(">QQIQ", (1 << 64) - 1, 5, 0xFFFFFFFF, (1 << 64) - 1))]:
            add(b"sowt", free, mdhd=bytes([ver, 0, 0, 7]) + body + b"\x55\xc4\0\0")
        for depth, ch, br, sr in [(16, 2, 0, 44100), (24, 6, 1234567, 96000), (255, 255, 0xFFFFFFFF, 0xFFFFFFFF), (0, 0, 0, 0)] + [(rng.getrandbits(8), rng.getrandbits(8), rng.getrandbits(32), rng.getrandbits(32)) for _ in range(10 * scale)]:
            cookie = b"\0\0\0\0" + struct.pack(">IBBBBBBHIII", rng.getrandbits(32), 0, depth, 40, 10, 14, ch, 255, rng.getrandbits(32), br, sr)
            add(b"alac", mp4_atom(b"alac", cookie) + rng.choice([b"", free]), ch=rng.getrandbits(16), bits=16, rate=rng.getrandbits(16))
        for acmod in range(8):
            for lfe in (0, 1):
                for brc in (0, 1, 18, rng.randrange(19)):
                    add(b"ac-3", mp4_atom(b"dac3", self.bits((rng.getrandbits(2), 2), (rng.getrandbits(5), 5), (rng.getrandbits(3), 3), (acmod, 3), (lfe, 1), (brc, 5), (rng.getrandbits(5), 5))),
                        rate=48000, bits=rng.getrandbits(16))
        for aot in (1, 2, 3, 4, 7):
            for fidx in list(range(13)) + [15]:
                for cc in range(1, 8):
                    if rng.random() < 0.3:
                        e = dict(long=rng.getrandbits(1), esid=rng.getrandbits(16), prio=rng.getrandbits(5), upstream=rng.getrandbits(1), bufsize=rng.getrandbits(24),
                                 maxbr=rng.getrandbits(32), avgbr=rng.getrandbits(32), aot=aot, fidx=fidx, efreq=rng.choice([0, 1, 24000, 24001, 48000, rng.getrandbits(24)]) if fidx == 15 else 0,
                                 cc=cc, flf=rng.getrandbits(1), sl=rng.choice([b"", bytes([6, 1, 2])]))
                        add(b"mp4a", mp4_atom(b"esds", self.esds_build(e)), ch=rng.choice([1, 2, 6]), rate=rng.choice([22050, 44100, 48000, 0]))
        vtrak = mp4_atom(b"tref", b"xx")
        add(b"sowt", free, extra_traks=vtrak, pre=mp4_atom(b"free", b"1234") + mp4_atom(b"mdat", b"\0" * 9))
        return out

    @staticmethod
    def file_of(entry_name, entry_children, ch=2, bits=16, rate=44100, mdhd=None, hdlr=b"soun", stsd_prefix=b"\0\0\0\0\0\0\0\1", extra_traks=b"", pre=b""):
        entry = mp4_atom(entry_name, b"\0" * 6 + b"\0\1" + b"\0" * 8 + struct.pack(">HHHHI", ch, bits, 0, 0, (rate & 0xFFFF) << 16) + entry_children)
        stsd = mp4_atom(b"stsd", stsd_prefix + entry)
        mdhd = struct.pack(">IIIIIHH", 0, 0, 0, 44100, 88200, 0x55C4, 0) if mdhd is None else mdhd
        trak = mp4_atom(b"trak", mp4_atom(b"mdia", mp4_atom(b"mdhd", mdhd) + mp4_atom(b"hdlr", b"\0" * 8 + hdlr + b"\0" * 13) +
                                          mp4_atom(b"minf", mp4_atom(b"smhd", b"\0" * 8) + mp4_atom(b"stbl", stsd))))
        return mp4_atom(b"ftyp", b"M4A \0\0\0\0") + pre + mp4_atom(b"moov", mp4_atom(b"mvhd", b"\0" * 100) + extra_traks + trak)

    @staticmethod
    def esds(asc, oti=0x40, stream_type=5, avg=128000, flags=0, url=b"", dcd_len=None, dsi_len=None, longform=False, with_dsi=True, sl=True):
        def L(n):
            return bytes([0x80, 0x80, 0x80, n]) if longform else bytes([n])
        dsi = bytes([5]) + L(len(asc) if dsi_len is None else dsi_len) + asc if with_dsi else b""
        dcd_body = bytes([oti, (stream_type << 2) | 1]) + b"\0\x18\0" + struct.pack(">II", avg * 2, avg) + dsi
        dcd = bytes([4]) + L(len(dcd_body) if dcd_len is None else dcd_len) + dcd_body
        es_body = struct.pack(">HB", 1, flags)
        if flags & 0x80:
            es_body += b"\0\2"
        if flags & 0x40:
            es_body += bytes([len(url)]) + url
        if flags & 0x20:
            es_body += b"\0\3"
        es_body += dcd + (bytes([6, 1, 2]) if sl else b"")
        return mp4_atom(b"esds", b"\0\0\0\0" + bytes([3]) + L(len(es_body)) + es_body)

    @staticmethod
    def bits(*fields):
        v = 0; n = 0
        for val, w in fields:
            v = (v << w) | (val & ((1 << w) - 1)); n += w
        pad = (-n) % 8
        return ((v << pad).to_bytes((n + pad) // 8, "big")) if n else b""

    def own_files(self, rng, scale):
        out = []
        B = self.bits
        # --- esds: AudioSpecificConfig shapes
        for aot in list(range(0, 46)) + [63, 94]:
            for idx in (0, 3, 4, 11, 12, 13, 14, 15):
                for cc in (0, 1, 2, 6, 7, 8, 15):
                    if rng.random() < 0.12 * min(scale, 3) or (idx == 4 and cc == 2):
                        aotf = [(aot, 5)] if aot < 31 else [(31, 5), (aot - 32, 6)]
                        fr = [(idx, 4)] + ([(rng.getrandbits(24), 24)] if idx == 15 else [])
                        tail = [(rng.getrandbits(1), 1), (rng.getrandbits(1), 1), (rng.getrandbits(1), 1)] + [(rng.getrandbits(8), 8)] * rng.randrange(0, 6)
                        if aot in (5, 29):
                            tail = [(rng.choice([3, 6, 15]), 4)] + ([(rng.getrandbits(24), 24)] if tail and False else []) + [(rng.choice([2, 22, 1]), 5)] + tail
                        asc = B(*(aotf + fr + [(cc, 4)] + tail))
                        out.append(("esds-asc", self.file_of(b"mp4a", self.esds(asc), ch=rng.choice([1, 2, 6]), rate=rng.choice([44100, 48000, 22050]))))
        # explicit SBR/PS signalling behind a GASpecificConfig
        for sync, ext, sbr, idx, ps_sync, ps in [(0x2b7, 5, 1, 3, 0x548, 1), (0x2b7, 5, 1, 6, 0x548, 0), (0x2b7, 5, 0, 0, 0, 0), (0x2b7, 5, 1, 15, 0x547, 1),
                                                 (0x2b6, 5, 1, 3, 0, 0), (0x2b7, 22, 1, 3, 0, 0), (0x2b7, 22, 0, 3, 0, 0), (0x2b7, 2, 1, 3, 0, 0)]:
            for base_idx in (4, 7, 6):
                for dlen in (None, 2, 4, 5, 6, 7, 30):
                    fr = [(idx, 4)] + ([(48000, 24)] if idx == 15 else [])
                    asc = B((2, 5), (base_idx, 4), (2, 4), (0, 1), (0, 1), (0, 1), (sync, 11), (ext, 5), (sbr, 1), *(fr + [(ps_sync, 11), (ps, 1), (5, 4)]))
                    out.append(("esds-sbr", self.file_of(b"mp4a", self.esds(asc, dsi_len=dlen))))
        # program_config_element (channelConfiguration 0)
        for _ in range(25 * scale):
            nf, ns, nb, nl, na, nc = rng.randrange(4), rng.randrange(3), rng.randrange(3), rng.randrange(3), rng.randrange(3), rng.randrange(3)
            f = [(2, 5), (4, 4), (0, 4), (0, 1), (rng.getrandbits(1), 1)]
            if f[-1][0]:
                f.append((rng.getrandbits(14), 14))
            ext = rng.getrandbits(1)
            f.append((ext, 1))
            f += [(rng.getrandbits(4), 4), (1, 2), (4, 4), (nf, 4), (ns, 4), (nb, 4), (nl, 2), (na, 3), (nc, 4)]
            for _m, w in ((0, 4), (0, 4), (0, 3)):
                m = rng.getrandbits(1)
                f.append((m, 1))
                if m:
                    f.append((rng.getrandbits(w), w))
            for _i in range(nf + ns + nb):
                f += [(rng.getrandbits(1), 1), (rng.getrandbits(4), 4)]
            f += [(rng.getrandbits(4), 4)] * nl + [(rng.getrandbits(4), 4)] * na + [(rng.getrandbits(5), 5)] * nc
            n = sum(w for _, w in f)
            if n % 8:
                f.append((0, 8 - n % 8))
            cb = rng.randrange(3)
            f += [(cb, 8)] + [(65, 8)] * cb + [(ext and rng.getrandbits(1), 1), (0, 7)]
            asc = B(*f)
            cut = rng.choice([None, None, None, rng.randrange(len(asc) + 1)])
            out.append(("esds-pce", self.file_of(b"mp4a", self.esds(asc if cut is None else asc[:cut]))))
        # descriptor structure
        asc = B((2, 5), (4, 4), (2, 4), (0, 3))
        for kw in [dict(oti=0x40, stream_type=4), dict(oti=0x6B), dict(oti=0x69, with_dsi=False), dict(oti=0xE1), dict(flags=0x80), dict(flags=0x40, url=b"http://x"),
                   dict(flags=0x20), dict(flags=0xE0, url=b""), dict(longform=True), dict(dcd_len=13), dict(dcd_len=14), dict(dcd_len=0), dict(dsi_len=0), dict(dsi_len=1),
                   dict(dsi_len=100), dict(with_dsi=False), dict(with_dsi=False, sl=False), dict(avg=0), dict(avg=0xFFFFFFFF // 2)]:
            out.append(("esds-desc", self.file_of(b"mp4a", self.esds(asc, **kw))))
        e = self.esds(asc)
        for n in range(8, len(e) + 1):
            out.append(("esds-trunc", self.file_of(b"mp4a", struct.pack(">I", n) + e[4:n])))
        for off, val in [(8, 1), (12, 4), (12, 0), (13, 0x80), (13, 0xFF), (18, 5), (19, 0x80), (32, 6), (33, 0x80)]:
            b2 = bytearray(e); b2[off] = val
            out.append(("esds-flip", self.file_of(b"mp4a", bytes(b2))))
        out.append(("esds-lenvarint5", self.file_of(b"mp4a", mp4_atom(b"esds", b"\0\0\0\0\3\x80\x80\x80\x80\x10" + e[14:]))))
        out.append(("esds-not-mp4a", self.file_of(b"mp4v", e)))
        out.append(("mp4a-not-esds", self.file_of(b"mp4a", mp4_atom(b"wave", e))))
        # --- alac
        for ver, compat, bits, ch, br, sr in [(0, 0, 16, 2, 0, 44100), (0, 0, 24, 6, 1234567, 96000), (0, 0, 255, 255, 0xFFFFFFFF, 0xFFFFFFFF), (0, 1, 24, 6, 1, 2), (1, 0, 16, 2, 0, 44100),
                                             (0, 0, 0, 0, 0, 0)]:
            cookie = bytes([ver, 0, 0, 0]) + struct.pack(">IBBBBBBHIII", 4096, compat, bits, 40, 10, 14, ch, 255, 0, br, sr)
            out.append(("alac", self.file_of(b"alac", mp4_atom(b"alac", cookie))))
            for n in (0, 3, 4, 5, 8, 9, 10, 23, 27):
                out.append(("alac-trunc", self.file_of(b"alac", mp4_atom(b"alac", cookie[:n]))))
        out.append(("alac-in-mp4a", self.file_of(b"mp4a", mp4_atom(b"alac", cookie))))
        # --- dac3
        for acmod in range(8):
            for lfe in (0, 1):
                for brc in (0, 1, 18, 19, 31, rng.randrange(32)):
                    out.append(("dac3", self.file_of(b"ac-3", mp4_atom(b"dac3", B((rng.getrandbits(2), 2), (8, 5), (0, 3), (acmod, 3), (lfe, 1), (brc, 5), (rng.getrandbits(5), 5)) + rbytes(rng, rng.randrange(2))),
                                                     rate=48000)))
        for n in (0, 1, 2):
            out.append(("dac3-trunc", self.file_of(b"ac-3", mp4_atom(b"dac3", b"\x10\x3d\x40"[:n]))))
        # --- sample entry / stsd / tree shapes
        free = mp4_atom(b"free", b"")
        for name in (b"sowt", b"twos", b"samr", b"\xa9xyz", b"moov", b"free"):
            out.append(("entry-name", self.file_of(name, free, ch=rng.getrandbits(16), bits=rng.getrandbits(16), rate=rng.getrandbits(16))))
        for ch in [b"", b"\0" * 7, struct.pack(">I4s", 7, b"free"), struct.pack(">I4s", 0, b"free"), struct.pack(">I4sQ", 1, b"free", 16), struct.pack(">I4sQ", 1, b"free", 15),
                   struct.pack(">I4s", 1000, b"abcd"), struct.pack(">I4sQ", 1, b"free", (1 << 64) - 1), struct.pack(">I4sQ", 1, b"free", (1 << 63) - 29), struct.pack(">I4sQ", 1, b"free", (1 << 63) - 28),
                   mp4_atom(b"moov", b""), mp4_atom(b"meta", b"\0\0\0\0"), mp4_atom(b"udta", mp4_atom(b"free", b"")), mp4_atom(b"udta", b"\0\0\0")]:
            out.append(("entry-children", self.file_of(b"sowt", ch)))
        for pre in [b"", b"\0\0\0", b"\1\0\0\0\0\0\0\1", b"\0\0\0\0\0\0\0\0", b"\0\0\0\0\0\0\0", b"\0\0\0\0\xff\xff\xff\xff", b"\0\xff\xff\xff\0\0\0\2"]:
            out.append(("stsd-prefix", self.file_of(b"sowt", free, stsd_prefix=pre)))
        for hd in (b"vide", b"soun", b"sou", b"SOUN"):
            out.append(("hdlr", self.file_of(b"sowt", free, hdlr=hd)))
        vtrak = mp4_atom(b"trak", mp4_atom(b"mdia", mp4_atom(b"mdhd", b"\0" * 24) + mp4_atom(b"hdlr", b"\0" * 8 + b"vide" + b"\0" * 13)))
        out.append(("video-first", self.file_of(b"sowt", free, extra_traks=vtrak)))
        out.append(("trak-without-hdlr", self.file_of(b"sowt", free, extra_traks=mp4_atom(b"trak", mp4_atom(b"mdia", b"")))))
        out.append(("trak-without-mdia", self.file_of(b"sowt", free, extra_traks=mp4_atom(b"trak", b""))))
        out.append(("second-moov", self.file_of(b"sowt", free, pre=mp4_atom(b"moov", b""))))
        out.append(("no-moov", mp4_atom(b"ftyp", b"M4A \0\0\0\0") + mp4_atom(b"mdat", b"xx")))
        for ver, body in [(0, struct.pack(">IIII", 1, 2, 48000, 96000)), (1, struct.pack(">QQIQ", 1, 2, 48000, 1 << 40)), (0, struct.pack(">IIII", 1, 2, 0, 5)), (2, b"\0" * 30)]:
            m = bytes([ver, 0, 0, 0]) + body + b"\x55\xc4\0\0"
            out.append(("mdhd", self.file_of(b"sowt", free, mdhd=m)))
            for n in (0, 3, 4, 11, 12, 19, 20, 27, 28, 31):
                out.append(("mdhd-trunc", self.file_of(b"sowt", free, mdhd=m[:n])))
        return out

    def damaged(self, rng, goods, scale):
        from gen import headers_more as H
        out = self.own_files(rng, scale)
        hm = []
        for kind in self.hm_kinds:
            fn = dict(H._CASE_FUNCS)[kind]
            ps = fn(rng, 1)
            for params in ps[:2] + ps[-2:]:
                hm.append(H.BUILDERS[kind](params)[0])
        for g in hm + [x for _, x in out[:3]]:
            out += [(w, d) for w, d in damage(rng, g, every_prefix=0, n_random=25 * scale)]
            for key in (b"moov", b"trak", b"mdia", b"mdhd", b"hdlr", b"minf", b"stbl", b"stsd", b"mp4a", b"esds", b"alac", b"dac3"):
                i = g.find(key)
                if i > 4:
                    for v in (0, 1, 7, 8, 9, 15, 16, 100, 1 << 31, 0xFFFFFFFF):
                        out.append(("size-of-" + key.decode(), g[:i - 4] + struct.pack(">I", v) + g[i:]))
                    out.append(("name-of-" + key.decode(), g[:i] + key.upper() + g[i + 4:]))
                    out.append(("cut-in-" + key.decode(), g[:i + 4 + rng.randrange(0, 30)]))
        out.append(("empty", b""))
        return out


# ======================================================================================
# MP3

def _c05():
    """harness/props/c05.py (spec-derived MPEG header and frame-length builders)"""
    try:
        from props import c05
    except ImportError:
        sys.path.insert(0, os.path.join(os.path.dirname(os.path.abspath(__file__)), "props"))
        import c05
    return c05


def mp3_lame_ext(rng, **kw):
    """27 bytes of the LAME extension (http://gabriel.mp3-tech.org/mp3infotag.html) from field values"""
    f = dict(revision=0, vbr_method=rng.randrange(16), lowpass=rng.randrange(256), peak=rng.choice([0, rng.getrandbits(32)]),
             tg_type=rng.choice([0, 1, 1, 2, 7]), tg_origin=rng.randrange(8), tg_sign=rng.getrandbits(1), tg_adj=rng.getrandbits(9),
             ag_type=rng.choice([0, 2, 2, 1]), ag_origin=rng.randrange(8), ag_sign=rng.getrandbits(1), ag_adj=rng.getrandbits(9),
             enc_flags=rng.randrange(16), ath=rng.randrange(16), bitrate=rng.choice([0, 8, 32, 128, 254, 255]), delay=rng.choice([0, 576, 1105, 4095]),
             padding=rng.choice([0, 1, 1151, 4095]), misc=rng.getrandbits(8), mp3gain=rng.getrandbits(8), surround=rng.getrandbits(5) & 7,
             preset=rng.choice([0, 0, 128, 1001, 1002, 1003, 1004, 1005, 1006, 1007, rng.getrandbits(11)]), music_length=rng.getrandbits(32),
             music_crc=rng.getrandbits(16), header_crc=rng.getrandbits(16))
    f.update(kw)
    v = 0
    for name, w in (("revision", 4), ("vbr_method", 4), ("lowpass", 8), ("peak", 32), ("tg_type", 3), ("tg_origin", 3), ("tg_sign", 1), ("tg_adj", 9),
                    ("ag_type", 3), ("ag_origin", 3), ("ag_sign", 1), ("ag_adj", 9), ("enc_flags", 4), ("ath", 4), ("bitrate", 8), ("delay", 12), ("padding", 12),
                    ("misc", 8), ("mp3gain", 8)):
        v = (v << w) | (f[name] & ((1 << w) - 1))
    v = (v << 2)
    v = (v << 3) | f["surround"]
    v = (v << 11) | (f["preset"] & 0x7FF)
    v = (v << 32) | f["music_length"]
    v = (v << 16) | f["music_crc"]
    v = (v << 16) | f["header_crc"]
    return v.to_bytes(27, "big"), f


@register
class Mp3Tie(KindTie):
    name = "MP3"
    hm_kinds = ()
    ATTRS = ("length", "bitrate", "channels", "sample_rate", "version", "layer", "mode", "protected", "padding", "sketchy", "bitrate_mode",
             "encoder_info", "encoder_settings", "track_gain", "track_peak", "album_gain", "frame_offset")

    def attrs_of(self, i):
        d = {a: getattr(i, a) for a in self.ATTRS}
        d["bitrate_mode"] = int(d["bitrate_mode"])
        d["protected"] = int(d["protected"]); d["padding"] = int(d["padding"]); d["sketchy"] = int(d["sketchy"])
        return d

    def real(self, data):
        from mutagen.mp3 import MPEGInfo
        return self.attrs_of(MPEGInfo(io.BytesIO(data)))

    def public(self, data):
        from mutagen.mp3 import MP3
        return self.attrs_of(MP3(io.BytesIO(data)).info)

    # ---- spec-derived pieces (harness/props/c05.py has the header / frame-length builders)
    @staticmethod
    def frame(v, l, b, s, pad=0, m=0, p=1, body=None, rng=None):
        c05 = _c05()
        ver = {0: 25, 2: 20, 3: 10}[v]; lay = 4 - l
        br = c05.ISO_BR[(ver, lay)][b] * 1000; sr = c05.ISO_SR[ver][s]
        flen = c05.iso_frame_length(ver, lay, br, sr, pad)
        hdr = c05.mpeg_header(v, l, p, b, s, pad, 0, m, 0)
        if body is None:
            body = b"\0" * (flen - 4)
        body = (body + b"\0" * flen)[:max(0, flen - 4)]
        return hdr + body, flen

    @staticmethod
    def side(v, m):
        return (32 if m != 3 else 17) if v == 3 else (17 if m != 3 else 9)

    def xing_frame(self, rng, v, s, m, b=9, magic=b"Xing", flags=15, frames=1000, nbytes=400000, scale=50, version=None, lame=None, cut=None):
        x = magic + struct.pack(">L", flags)
        if flags & 1:
            x += struct.pack(">L", frames)
        if flags & 2:
            x += struct.pack(">L", nbytes)
        if flags & 4:
            x += bytes(range(100))
        if flags & 8:
            x += struct.pack(">L", scale)
        if version is not None:
            x += version[:9].ljust(9, b"\0") if lame is not None else version[:20].ljust(20, b"\0")
            if lame is not None:
                x += lame
        if cut is not None:
            x = x[:cut]
        fr, flen = self.frame(v, 1, b, s, 0, m, 1, body=b"\0" * self.side(v, m) + x)
        return fr, flen

    def own_files(self, rng, scale):
        out = []
        vs = (3, 2, 0)
        # CBR streams: every version x layer, a few bitrates, k = 1..6 frames
        for v in vs:
            for l in (1, 2, 3):
                for s in range(3):
                    for k in (1, 2, 3, 4, 5, 6):
                        b = rng.randrange(1, 15); m = rng.randrange(4); pad = rng.getrandbits(1)
                        fr, flen = self.frame(v, l, b, s, pad, m, rng.getrandbits(1), body=bytes(rng.randrange(0, 0xE0) for _ in range(2000)))
                        out.append(("cbr-k%d" % k, fr * k + rbytes(rng, rng.choice([0, 0, 3, 50]))))
        # changing bitrates / padding between frames (same version, layer, rate)
        for _ in range(30 * scale):
            v = rng.choice(vs); l = rng.choice((1, 2, 3)); s = rng.randrange(3); m = rng.randrange(4)
            st = b"".join(self.frame(v, l, rng.randrange(1, 15), s, rng.getrandbits(1), m, 1)[0] for _ in range(rng.randrange(1, 7)))
            pre = rng.choice([b"", b"", bytes(rng.randrange(0, 0xFF) for _ in range(rng.randrange(1, 40)))])
            out.append(("vbr-no-header", pre + st + rbytes(rng, rng.randrange(0, 10))))
        # Xing / Info
        versions = [b"LAME3.99r", b"LAME3.100", b"LAME3.98 ", b"LAME3.97 ", b"LAME3.97b", b"LAME3.96a", b"LAME3.93.", b"LAME3.90.", b"LAME3.90 (alpha)", b"LAME3.92 ",
                    b"LAME3.89 (beta 1)", b"LAME3.50", b"L3.99r1\0\0", b"LAME3.9", b"LAMELAME3", b"LAME 3.99", b"LAMEx.99r", b"LAME3.\xff9r", b"LAME3.995", b"LAME4.0  ",
                    b"LAME3.88\xe9", b"GOGO3.99r", b"LAME", b"LAME3", b"LAME3.", b"LAME3..99 ", b"LAME3.99\0\0", b"LAME03.99", b"LAME3.099"]
        for v in vs:
            for m in (0, 3):
                for s in range(3):
                    for magic in (b"Xing", b"Info"):
                        for flags in range(16):
                            fr, flen = self.xing_frame(rng, v, s, m, magic=magic, flags=flags, frames=rng.choice([0, 1, 2, 1000, 2 ** 32 - 1]),
                                                       nbytes=rng.choice([0, 1, 100, 417, 418, 10 ** 6, 2 ** 32 - 1]), scale=rng.choice([0, 1, 50, 100, 101, 255, 2 ** 32 - 1]),
                                                       version=rng.choice([None, rng.choice(versions)]))
                            out.append(("xing", fr + self.frame(v, 1, 9, s, 0, m)[0] * rng.randrange(0, 3)))
        for ver in versions:
            for with_lame in (False, True):
                for _ in range(2 * scale):
                    v = rng.choice(vs); m = rng.choice((0, 1, 3)); s = rng.randrange(3)
                    lame, _f = mp3_lame_ext(rng, revision=rng.choice([0, 0, 0, 0, 1, 15]))
                    fr, flen = self.xing_frame(rng, v, s, m, b=rng.choice([9, 12, 14]), magic=rng.choice([b"Xing", b"Info"]), flags=rng.choice([15, 15, 3, 11, 7, 0, 8]),
                                               frames=rng.choice([1, 5, 1000, 123457]), nbytes=rng.randrange(1, 10 ** 7), scale=rng.choice([0, 20, 43, 57, 78, 100, 105]),
                                               version=ver, lame=lame if with_lame else None, cut=rng.choice([None, None, None, rng.randrange(8, 180)]))
                    out.append(("lame", fr + self.frame(v, 1, 9, s, 0, m)[0]))
        # guess_settings: the preset / method table for every LAME generation
        for ver in (b"LAME3.90.", b"LAME3.92 ", b"LAME3.93 ", b"LAME3.97 ", b"LAME3.98r", b"LAME3.99r", b"LAME3.100", b"LAME4.2  "):
            for method in range(10):
                for preset, brate, lp, ath, sc, ef in [(0, 128, 190, 4, 78, 0), (0, 255, 195, 3, 88, 1), (1003, 32, 0, 2, 50, 0), (1001, 8, 0, 0, 41, 3), (1007, 254, 195, 2, 78, 0),
                                                       (500, 32, 0, 4, 48, 1), (0, 8, 0, 0, 35, 0), (1002, 128, 190, 3, 82, 0), (1006, 8, 0, 1, 0, 0), (0, 32, 0, 0, 150, 0)]:
                    lame, _f = mp3_lame_ext(rng, revision=0, vbr_method=method, preset=preset, bitrate=brate, lowpass=lp, ath=ath, enc_flags=ef)
                    fr, flen = self.xing_frame(rng, 3, 0, 1, b=12, flags=15, frames=100, nbytes=50000, scale=sc, version=ver, lame=lame)
                    out.append(("lame-settings", fr))
        # VBRI
        for v in vs:
            for m in (0, 3):
                for s in range(3):
                    for version, esize, nent, frames, nby in [(1, 2, 1, 1000, 400000), (1, 4, 3, 1, 1), (1, 2, 0, 0, 5), (0, 2, 1, 5, 5), (2, 2, 1, 5, 5), (1, 3, 1, 5, 5), (1, 0, 7, 5, 5),
                                                              (1, 2, 100, 77, 2 ** 32 - 1), (1, 4, 60000, 2 ** 32 - 1, 8)]:
                        vb = b"VBRI" + struct.pack(">HHHLLHHHH", version, 0, 75, nby, frames, nent, 1, esize, 1) + b"\0" * min(esize * nent, 60)
                        fr, flen = self.frame(v, 1, 12, s, 0, m, 1, body=b"\0" * 32 + vb)
                        out.append(("vbri", fr + self.frame(v, 1, 12, s, 0, m)[0] * rng.randrange(0, 2)))
                    vb = b"VBRI" + struct.pack(">HHHLLHHHH", 1, 0, 75, 12345, 99, 1, 1, 2, 1)
                    for n in (0, 3, 4, 25, 26, 27):
                        out.append(("vbri-trunc", (self.frame(v, 1, 12, s, 0, m, 1)[0][:36] + vb)[:36 + n]))
        # layer 1 / 2 frames with "Xing" where layer 3 would have it: ignored
        for l in (2, 3):
            fr, flen = self.frame(3, l, 9, 0, 0, 0, 1, body=b"\0" * 32 + b"Xing" + struct.pack(">LLL", 3, 77, 99999))
            out.append(("xing-layer%d" % (4 - l), fr * 5))
        # a Xing frame as 2nd / 3rd / 4th frame
        xf, _ = self.xing_frame(rng, 3, 0, 0, flags=3, frames=10, nbytes=4000)
        plain, _ = self.frame(3, 1, 9, 0, 0, 0)
        for k in (1, 2, 3, 4):
            out.append(("xing-at-%d" % k, plain * k + xf + plain))
        # ID3v2 tags in front, junk, false syncs
        good = plain * 5

        def id3(n, size=None, magic=b"ID3"):
            size = n if size is None else size
            return magic + b"\3\0\0" + bytes([(size >> 21) & 0x7F, (size >> 14) & 0x7F, (size >> 7) & 0x7F, size & 0x7F]) + b"\0" * n
        out += [("id3", id3(50) + good), ("id3x2", id3(50) + id3(1) + good), ("id3-size0", id3(0) + good), ("id3-claims-more", id3(10, 5000) + good),
                ("id3-claims-less", id3(300, 10) + good), ("id3-highbits", b"ID3\3\0\0\x80\x80\x80\x8a" + b"\0" * 10 + good), ("id3-lower", id3(20, magic=b"id3") + good),
                ("id3-short", b"ID3\3\0\0\0\0"), ("id3-only", id3(30)), ("id3-in-junk", b"xx" + id3(20) + good), ("id3-ff-inside", id3(20)[:10] + b"\xff\xfb\x90\x00" * 5 + good),
                ("empty", b""), ("one-ff", b"\xff"), ("ff-e0", b"\xff\xe0"), ("ffs", b"\xff" * 200), ("false-then-good", b"\xff\xe0\0\0" * 7 + good),
                ("junk-ends-ff", b"abc\xff" + good), ("junk-ff-fe", b"\xff\xfe" + b"j" * 30 + good), ("good-cut", good[:len(plain) * 3 + 100]),
                ("two-frames", plain * 2), ("two-frames+junk", plain * 2 + b"\0" * 5000), ("three-then-other-rate", plain * 3 + self.frame(3, 1, 9, 1, 0, 0)[0] * 3),
                ("1498-false", b"\xff\xe0" * 1498 + good), ("1499-false", b"\xff\xe0" * 1499 + good), ("1500-false", b"\xff\xe0" * 1500 + good),
                ("two-then-1500-false", plain * 2 + b"\0" + b"\xff\xe0" * 1600), ("late-two", b"\xff\xe0\0" * 20 + plain * 2 + b"\xff\xe0\0" * 10 + good)]
        for off in (0, 1, 2, 3, 5, 6, 7, 13, 14, 15, 29, 30, 31, 61, 62, 63, 125, 126, 127, 1000):
            out.append(("junk-%d" % off, bytes(rng.randrange(0, 0xFF) for _ in range(off)) + good))
        for _ in range(40 * scale):
            n = rng.randrange(1, 400)
            out.append(("random-ff", bytes(rng.choice([0xFF, 0xFF, 0xFB, 0xE0, 0x90, 0, rng.randrange(256)]) for _ in range(n))))
        for _ in range(20 * scale):
            b2 = bytearray(rng.choice([good, xf + plain * 2]))
            for _ in range(rng.choice([1, 2, 5])):
                b2[rng.randrange(min(len(b2), 200))] = rng.choice([0, 0xFF, 0xE0, rng.randrange(256)])
            out.append(("flip", bytes(b2)))
        out.append(("junk-1MiB-minus", b"\0" * (1024 * 1024 - 2) + good))
        out.append(("junk-1MiB-minus1", b"\0" * (1024 * 1024 - 1) + good))
        out.append(("junk-1MiB", b"\0" * (1024 * 1024) + good))
        # sample files
        d = "/repo/tests/data"
        for fn in sorted(os.listdir(d)):
            if fn.endswith(".mp3"):
                raw = open(os.path.join(d, fn), "rb").read()
                out.append(("sample:" + fn, raw))
                if len(raw) > 600:
                    out.append(("sample-cut:" + fn, raw[:rng.randrange(100, len(raw))]))
        return out

    def damaged(self, rng, goods, scale):
        return self.own_files(rng, scale)

    def extra(self, ctx, scale):
        """iter_sync alone: the real generator against the scan and against the chunk loop of the model"""
        from mutagen.mp3 import iter_sync
        rng = ctx.rng
        cases = []
        for _ in range(60 * scale):
            n = rng.choice([0, 1, 2, 3, 4, 5, 6, 7, 8, 14, 15, 16, 30, 31, 32, 33, 62, 63, 64, 100, 300])
            data = bytes(rng.choice([0xFF, 0xFF, 0xE0, 0xF0, 0xDF, 0x7F, 0]) for _ in range(n))
            pos = rng.choice([0, 0, 1, 2, n, n + 3])
            mx = rng.choice([1024 * 1024, 0, 1, 2, 3, 5, 6, 7, 14, 15, 29, 30, 31, n])
            cases.append((data, pos, mx))
        lines = []
        for data, pos, mx in cases:
            lines.append("infob op=syncs data=%s pos=%d max=%d" % (hx(data), pos, mx))
            lines.append("infob op=syncchunks data=%s pos=%d max=%d" % (hx(data), pos, mx))
        ans = ctx.driver.ask(lines)
        for i, (data, pos, mx) in enumerate(cases):
            f = io.BytesIO(data); f.seek(pos)
            got = []
            for _ in iter_sync(f, mx):
                got.append(f.tell())
                f.seek(rng.randrange(0, len(data) + 3))          # the consumer may seek anywhere
            want = "ok v=%s" % (",".join(map(str, got)) if got else "-")
            for a, which in ((ans[2 * i], "scan"), (ans[2 * i + 1], "chunks")):
                ctx.traces_validated += 1
                ctx.hist["infob:MP3:iter_sync:" + which] += 1
                if a != want:
                    ctx.disagree("MP3 iter_sync (%s)" % which, dict(data=data.hex(), pos=pos, max=mx), model=a, impl=want)
        return len(cases) + self.offset_cases(ctx, scale)

    def offset_cases(self, ctx, scale):
        """MPEGInfo(fileobj, offset): the model's `parseFrom` against the real class at offsets inside, at the end of and
        behind the file; and the theorem instance `…_at`: a stream behind any prefix, read from the prefix's length,
        gives what the stream alone gives, the frame offset moved by the prefix's length"""
        from mutagen.mp3 import MPEGInfo
        rng = ctx.rng
        files = [d for _, d in self.own_files(rng, 1) if len(d) < 20000]
        rng.shuffle(files)
        files = files[:40 * scale]
        cases = []
        for data in files:
            offs = {0, len(data), len(data) + 5, rng.randrange(len(data) + 1), rng.randrange(len(data) + 1)}
            if data[:3] == b"ID3" and len(data) >= 10:
                size = 0
                for b in data[6:10]:
                    size = size * 128 + (b & 0x7F)
                offs |= {10 + size, 10 + size - 1, 10}
            for o in sorted(offs):
                cases.append((data, o, None))
            pre = bytes(rng.choice([0xFF, 0xFB, 0x90, 0x49, 0x44, 0x33, 0, rng.getrandbits(8)]) for _ in range(rng.choice([1, 3, 10, 11, 200, 5000])))
            cases.append((pre + data, len(pre), len(pre)))
        ans = ctx.driver.ask(["infob kind=MP3 data=%s offset=%d" % (hx(d), o) for d, o, _ in cases])
        for (data, o, shift), a in zip(cases, ans):
            def real(d=data, o=o):
                return self.attrs_of(MPEGInfo(io.BytesIO(d), o))
            k, r = timed(real, 20)
            rstat, rvals = ("hang", {}) if k == "hang" else (classify(r), {}) if k == "exc" else ("ok", r)
            desc = dict(kind="MP3", origin="offset", offset=o, data=hx(data) if len(data) < 700 else "len=%d" % len(data))
            ctx.hist["infob:MP3:offset:%s" % rstat] += 1
            compare(ctx, self, "parse at offset", desc, a, rstat, rvals)
            if shift is not None:
                # the stream alone
                k2, r2 = timed(lambda d=data[shift:]: self.attrs_of(MPEGInfo(io.BytesIO(d))), 20)
                ctx.traces_validated += 1
                if k2 == "ok" and rstat == "ok":
                    want = dict(r2, frame_offset=r2["frame_offset"] + shift)
                    if want != rvals:
                        ctx.disagree("MP3: behind a prefix, from its length: differs from the stream alone", desc, model=repr(want)[:300], impl=repr(rvals)[:300])
                    ctx.hist["infob:MP3:offset:prefix-equal"] += 1
                elif (k2 == "ok") != (rstat == "ok"):
                    ctx.disagree("MP3: behind a prefix, from its length: status differs from the stream alone", desc, model=str(k2), impl=rstat)
        return len(cases)


class Mp3SpecTie(Mp3Tie):
    """the three specification-side stream shapes of Spec/Info/Mpeg.lean: OK field values only (the driver does not
    decide `OK`), built here with harness/props/c05.py's header builder as the independent builder"""
    hm_kinds = ()

    def damaged(self, rng, goods, scale):
        return []

    def extra(self, ctx, scale):
        return 0

    @staticmethod
    def hdr_str(v, l, p, b, s, pad, priv, m, rest):
        return ".".join(map(str, (v, l, p, b, s, pad, priv, m, rest)))

    def rand_hdr(self, rng, layer=None):
        v = rng.choice((3, 2, 0)); l = rng.choice((1, 2, 3)) if layer is None else layer
        return (v, l, rng.getrandbits(1), rng.randrange(1, 15), rng.randrange(3), rng.getrandbits(1), rng.getrandbits(1), rng.randrange(4), rng.getrandbits(6))

    def hdr_bytes(self, h):
        return _c05().mpeg_header(*h)

    def flen(self, h):
        c05 = _c05()
        v, l, p, b, s, pad = h[:6]
        ver = {0: 25, 2: 20, 3: 10}[v]; lay = 4 - l
        return c05.iso_frame_length(ver, lay, c05.ISO_BR[(ver, lay)][b] * 1000, c05.ISO_SR[ver][s], pad)

    def lead(self, rng):
        tags = []
        for _ in range(rng.choice([0, 0, 1, 1, 2, 3])):
            n = rng.choice([1, 2, 10, 127, 128, 300])
            tags.append((rng.choice([2, 3, 4]), rng.getrandbits(8), rng.getrandbits(8), bytes(rng.randrange(0, 0xFF) for _ in range(n))))
        junk = bytes(rng.randrange(0, 0xE0) for _ in range(rng.choice([0, 0, 1, 2, 3, 7, 30, 31, 500])))
        if junk[:3] == b"ID3":
            junk = b"x" + junk
        py = b"".join(b"ID3" + bytes([a, b, c]) + bytes([(len(d) >> 21) & 0x7F, (len(d) >> 14) & 0x7F, (len(d) >> 7) & 0x7F, len(d) & 0x7F]) + d for a, b, c, d in tags) + junk
        arg = ",".join("%d.%d.%d.%s" % (a, b, c, d.hex()) for a, b, c, d in tags) if tags else "-"
        return dict(tags=arg, junk=junk), py


@register
class Mp3CbrTie(Mp3SpecTie):
    name = "MP3cbr"

    def lattice(self, rng, scale):
        out = []
        for _ in range(60 * scale):
            lead, py = self.lead(rng)
            d = dict(kind="MP3cbr", **lead)
            for k in ("f1", "f2", "f3", "f4"):
                h = self.rand_hdr(rng)
                body = bytes(rng.randrange(0, 0x40) for _ in range(self.flen(h) - 4))
                d[k + "h"] = self.hdr_str(*h); d[k + "b"] = body
                py += self.hdr_bytes(h) + body
            tr = rbytes(rng, rng.choice([0, 0, 5, 400]))
            d["trailing"] = tr
            d["_py"] = py + tr
            out.append(d)
        return out


@register
class Mp3ShortTie(Mp3SpecTie):
    """one to three frames and then no header, no false sync anywhere: the sketchy fallback (two or three frames: the
    first frame's values, sketchy) and the refusal of a single frame; the driver decides `OK`"""
    name = "MP3short"

    def stream(self, rng, k):
        lead, py = self.lead(rng)
        d = dict(kind="MP3short", **lead)
        for key in ("f1", "f2", "f3")[:k]:
            h = self.rand_hdr(rng)
            body = bytes(rng.randrange(0, 0x40) for _ in range(self.flen(h) - 4))
            if rng.randrange(12) == 0:
                body = body[:-1] + b"\xff"                      # not OK: a sync across the frame boundary (or at the end)
            d[key + "h"] = self.hdr_str(*h); d[key + "b"] = body
            py += self.hdr_bytes(h) + body
        tr = rng.choice([b"", b"", bytes(rng.randrange(0, 0xE0) for _ in range(rng.choice([1, 2, 3, 5, 400]))), b"\xff", b"\xff\x00\xff", b"TAG" + bytes(125)])
        d["trailing"] = tr
        d["_py"] = py + tr
        return d

    def lattice(self, rng, scale):
        return [self.stream(rng, rng.choice([2, 3])) for _ in range(80 * scale)]

    def extra(self, ctx, scale):
        """a single frame: `expected` is the refusal"""
        rng = ctx.rng
        cases = [self.stream(rng, 1) for _ in range(30 * scale)]
        lines = []
        for d in cases:
            fields = {k: v for k, v in d.items() if k not in ("kind", "_py")}
            a = args(fields)
            lines.append("infob op=build kind=MP3short " + a)
            lines.append("infob op=expect kind=MP3short " + a)
        ans = ctx.driver.ask(lines)
        for i, d in enumerate(cases):
            b, e = ans[2 * i], ans[2 * i + 1]
            built = bytes.fromhex(b.split("v=", 1)[1].replace("-", "")) if b.startswith("ok v=") else None
            desc = dict(kind="MP3short", origin="one-frame", data=hx(d["_py"]) if len(d["_py"]) < 700 else "len=%d" % len(d["_py"]))
            ctx.traces_validated += 1
            if built != d["_py"]:
                ctx.disagree("MP3short: Lean build differs from the Python builder", desc, model=str(b)[:200], impl=d["_py"][:100].hex())
                continue
            rstat, rvals = real_answer(self, built)
            ctx.hist["infob:MP3short:one-frame:%s:%s" % (e.replace(" ", "_")[:24], rstat)] += 1
            if e.startswith("err mutagen") and e.endswith("ok=1") and rstat != "err:mutagen":
                ctx.disagree("MP3short: a single frame is not refused", desc, model=e, impl="%s %r" % (rstat, rvals))
        return len(cases)


@register
class Mp3XingTie(Mp3SpecTie):
    name = "MP3xing"

    def lattice(self, rng, scale):
        out = []
        for _ in range(120 * scale):
            lead, py = self.lead(rng)
            h = self.rand_hdr(rng, layer=1)
            v, m = h[0], h[7]
            side = bytes(rng.randrange(0, 0x40) for _ in range(self.side(v, m)))
            info = rng.getrandbits(1)
            frames = rng.choice([None, 0, 1, 2, 1000, 123457, 2 ** 32 - 1])
            nbytes = rng.choice([None, 0, 1, 100, self.flen(h), self.flen(h) + 1, 10 ** 6, 2 ** 32 - 1])
            toc = rng.choice([None, bytes(range(100))])
            quality = rng.choice([None, 0, 57, 100, 2 ** 32 - 1])
            after = bytes(rng.randrange(0, 0x40) for _ in range(rng.choice([0, 5, 19, 20, 60])))
            flags = (frames is not None) | ((nbytes is not None) << 1) | ((toc is not None) << 2) | ((quality is not None) << 3)
            x = (b"Info" if info else b"Xing") + struct.pack(">L", flags)
            for val in (frames, nbytes):
                if val is not None:
                    x += struct.pack(">L", val)
            if toc is not None:
                x += toc
            if quality is not None:
                x += struct.pack(">L", quality)
            d = dict(kind="MP3xing", hdr=self.hdr_str(*h), side=side, info=info, frames=frames, nbytes=nbytes, toc=toc, quality=quality, after=after, **lead)
            d["_py"] = py + self.hdr_bytes(h) + side + x + after
            out.append(d)
        return out


@register
class Mp3VbriTie(Mp3SpecTie):
    name = "MP3vbri"

    def lattice(self, rng, scale):
        out = []
        for _ in range(80 * scale):
            lead, py = self.lead(rng)
            h = self.rand_hdr(rng, layer=1)
            side = bytes(rng.randrange(0, 0x40) for _ in range(32))
            esize = rng.choice([2, 4]); nent = rng.choice([0, 1, 5, 100])
            toc = rbytes(rng, esize * nent)
            t = dict(delay=rng.getrandbits(16), quality=rng.getrandbits(16), nbytes=rng.choice([0, 1, 12345, 2 ** 32 - 1]), frames=rng.choice([0, 1, 2, 99, 123457, 2 ** 32 - 1]),
                     tocn=nent, tocscale=rng.getrandbits(16), tocsize=esize, tocfpe=rng.getrandbits(16))
            vb = b"VBRI" + struct.pack(">HHHLLHHHH", 1, t["delay"], t["quality"], t["nbytes"], t["frames"], nent, t["tocscale"], esize, t["tocfpe"]) + toc
            after = rbytes(rng, rng.choice([0, 7, 100]))
            d = dict(kind="MP3vbri", hdr=self.hdr_str(*h), side=side, toc=toc, after=after, **t, **lead)
            d["_py"] = py + self.hdr_bytes(h) + side + vb + after
            out.append(d)
        return out


@register
class Mp3LameTie(Mp3SpecTie):
    name = "MP3lame"

    def lattice(self, rng, scale):
        out = []
        for i in range(200 * scale):
            lead, py = self.lead(rng)
            h = self.rand_hdr(rng, layer=1)
            v, m = h[0], h[7]
            side = bytes(rng.randrange(0, 0x40) for _ in range(self.side(v, m)))
            info = rng.getrandbits(1)
            frames = rng.choice([None, 0, 1, 2, 3, 1000, 123457, 2 ** 32 - 1])
            nbytes = rng.choice([None, 0, 1, self.flen(h), 10 ** 6, 2 ** 32 - 1])
            toc = rng.choice([None, bytes(range(100))])
            quality = rng.choice([None, 0, 20, 43, 57, 78, 100, 101, 150, 2 ** 32 - 1])
            flags = (frames is not None) | ((nbytes is not None) << 1) | ((toc is not None) << 2) | ((quality is not None) << 3)
            x = (b"Info" if info else b"Xing") + struct.pack(">L", flags)
            for val in (frames, nbytes):
                if val is not None:
                    x += struct.pack(">L", val)
            if toc is not None:
                x += toc
            if quality is not None:
                x += struct.pack(">L", quality)
            vmajor = rng.choice([3, 3, 3, 3, 4, 9]); vminor = rng.choice([90, 91, 92, 93, 96, 97, 98, 99]) if vmajor == 3 else rng.randrange(100)
            vflag = rng.choice(b"r .ab")
            ver = b"LAME%d.%02d" % (vmajor, vminor) + bytes([vflag])
            ext, f = mp3_lame_ext(rng, revision=0, vbr_method=i % 16)
            d = dict(kind="MP3lame", hdr=self.hdr_str(*h), side=side, info=info, frames=frames, nbytes=nbytes, toc=toc, quality=quality, vmajor=vmajor, vminor=vminor,
                     vflag=vflag, method=f["vbr_method"], lowpass=f["lowpass"], peak=f["peak"], tgt=f["tg_type"], tgo=f["tg_origin"], tgs=f["tg_sign"], tga=f["tg_adj"],
                     agt=f["ag_type"], ago=f["ag_origin"], ags=f["ag_sign"], aga=f["ag_adj"], encflags=f["enc_flags"], ath=f["ath"], lbitrate=f["bitrate"], ldelay=f["delay"],
                     lpadding=f["padding"], misc=f["misc"], mp3gain=f["mp3gain"], surround=f["surround"], preset=f["preset"], mlen=f["music_length"], mcrc=f["music_crc"],
                     tcrc=f["header_crc"], after=rbytes(rng, rng.choice([0, 5, 40])), **lead)
            d["_py"] = py + self.hdr_bytes(h) + side + x + ver + ext + d["after"]
            out.append(d)
        return out


# ======================================================================================

def run(ctx, only=None):
    """model tie of the second C05 batch; returns the number of cases"""
    if not ctx.model_ok():
        ctx.notes.append("info_tie_b: model driver unavailable, tie skipped")
        return 0
    scale = ctx.budget(1, 10)
    n = 0
    for tie in TIES:
        if only and tie.name not in only:
            continue
        n += run_kind(ctx, tie, scale)
        if hasattr(tie, "extra"):
            n += tie.extra(ctx, scale)
    return n


if __name__ == "__main__":
    import json
    import vcheck
    tier = sys.argv[1] if len(sys.argv) > 1 else "quick"
    only = sys.argv[2:] or None
    ctx = vcheck.Ctx("C05", tier, int(os.environ.get("VERIF_SEED", "0") or 0))
    ctx.build = vcheck.BuildStatus()
    ctx.driver = vcheck.Driver(os.path.exists(vcheck.DRIVER))
    n = run(ctx, only)
    print("cases", n, "traces_validated", ctx.traces_validated, "disagreements", len(ctx.disagreements), "violations", len(ctx.violations))
    for k in sorted(ctx.hist):
        if k.startswith("infob:"):
            print("  ", k, ctx.hist[k])
    for d in ctx.disagreements[:int(os.environ.get("SHOW", "8"))]:
        print(json.dumps(d, default=str)[:1500])
    for v in ctx.violations[:5]:
        print("VIOLATION", json.dumps(v, default=str)[:800])
    for note in ctx.notes:
        print("note:", note)
