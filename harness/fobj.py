"""fobj.py — the file-thing zoo: tracing, fault-injecting, capacity-limited and
minimal-interface file objects wrapped around io.BytesIO."""
import io, errno


class TraceFile(object):
    """records every call in the notation of the Lean driver's log
    (s<p> seek, e seek-from-end, t tell, r<n> read, w<n> write, x<n> truncate, f flush)"""

    def __init__(self, data=b"", pos=0):
        self._f = io.BytesIO(data)
        self._f.seek(pos)
        self.log = []

    def read(self, n=-1):
        self.log.append("r%d" % n)
        return self._f.read(n)

    def seek(self, off, whence=0):
        if whence == 2:
            self.log.append("e")
        else:
            self.log.append("s%d" % off)
        return self._f.seek(off, whence)

    def tell(self):
        self.log.append("t")
        return self._f.tell()

    def write(self, b):
        self.log.append("w%d" % len(b))
        return self._f.write(b)

    def truncate(self, n=None):
        self.log.append("x%d" % (self._f.tell() if n is None else n))
        return self._f.truncate(n)

    def flush(self):
        self.log.append("f")
        return self._f.flush()

    def getvalue(self):
        return self._f.getvalue()

    def pos(self):
        return self._f.tell()


class FaultFile(TraceFile):
    """raises at call index `fail_at` (IOError with `errno_`), returns at most `short[1]`
    bytes from the read at call index `short[0]`; device capacity `cap` with `leak` bytes of
    the failing write reaching the file."""

    def __init__(self, data=b"", pos=0, fail_at=None, errno_=errno.EIO, short=None, cap=None, leak=0):
        TraceFile.__init__(self, data, pos)
        self.fail_at = fail_at
        self.errno_ = errno_
        self.short = short
        self.cap = cap
        self.leak = leak
        self.calls = 0
        self.closed_called = False
        self.fault_site = None

    def _site(self):
        """module.py:function of the mutagen frame that made this file-object call"""
        import sys
        f = sys._getframe(2)
        while f is not None:
            fn = f.f_code.co_filename
            if "/mutagen/" in fn and f.f_code.co_name != "_seek_back":      # apev2._seek_back: the site is its caller
                return "%s:%s" % (fn.split("/mutagen/")[-1], f.f_code.co_name)
            f = f.f_back
        return "?"

    def _tick(self):
        i = self.calls
        self.calls += 1
        if self.fail_at is not None and i == self.fail_at:
            self.fault_site = self._site()
            raise IOError(self.errno_, "injected fault at call %d" % i)
        return i

    def read(self, n=-1):
        self.log.append("r%d" % n)
        i = self._tick()
        if self.short is not None and self.short[0] == i and (n < 0 or n > self.short[1]):
            n = self.short[1]
            self.fault_site = self._site()
        return self._f.read(n)

    def seek(self, off, whence=0):
        self.log.append("e" if whence == 2 else "s%d" % off)
        self._tick()
        return self._f.seek(off, whence)

    def tell(self):
        self.log.append("t")
        self._tick()
        return self._f.tell()

    def write(self, b):
        self.log.append("w%d" % len(b))
        self._tick()
        if self.cap is not None:
            pos = self._f.tell()
            size = len(self._f.getvalue())
            newlen = max(size, pos + len(b))
            if newlen > self.cap and newlen > size:
                room = max(0, self.cap - max(pos, size))
                inplace = max(0, size - pos)
                k = min(self.leak, inplace + room)
                if k:
                    self._f.write(b[:k])
                raise IOError(errno.ENOSPC, "No space left on device")
        return self._f.write(b)

    def truncate(self, n=None):
        self.log.append("x%d" % (self._f.tell() if n is None else n))
        self._tick()
        return self._f.truncate(n)

    def flush(self):
        self.log.append("f")
        self._tick()
        return self._f.flush()

    def close(self):
        self.closed_called = True


class MinimalFile(object):
    """implements only the documented interface (docs/user/examples/fileobj-iface.py) and
    logs every other attribute that is requested"""
    DOCUMENTED = {"read", "seek", "tell", "write", "truncate", "flush", "name", "fileno"}

    def __init__(self, data=b"", name=None, writable=True):
        object.__setattr__(self, "_f", io.BytesIO(data))
        object.__setattr__(self, "requested", [])
        object.__setattr__(self, "closed_called", False)
        object.__setattr__(self, "_writable", writable)
        if name is not None:
            object.__setattr__(self, "name", name)

    def read(self, size=-1):
        return self._f.read(size)

    def seek(self, offset, whence=0):
        self._f.seek(offset, whence)

    def tell(self):
        return self._f.tell()

    def write(self, data):
        self._f.write(data)

    def truncate(self, size=None):
        self._f.truncate(size)

    def flush(self):
        self._f.flush()

    def fileno(self):
        raise IOError("no fileno")

    def getvalue(self):
        return self._f.getvalue()

    def __getattr__(self, name):
        self.requested.append(name)
        raise AttributeError(name)


class RawMem(io.RawIOBase):
    """an in-memory *raw* stream (io.RawIOBase, what open(..., buffering=0) gives): mutagen must treat it like any other
    caller-supplied object - use it directly, never close it; `fail_at` injects one IOError at that call index"""

    def __init__(self, data=b"", name=None, fail_at=None):
        io.RawIOBase.__init__(self)
        self._b = io.BytesIO(data)
        if name is not None:
            self.name = name
        self.fail_at = fail_at
        self.calls = 0
        self.close_calls = 0

    def _tick(self):
        i = self.calls
        self.calls += 1
        if self.fail_at is not None and i == self.fail_at:
            raise IOError(errno.EIO, "injected I/O error")

    def readable(self): return True
    def writable(self): return True
    def seekable(self): return True

    def readinto(self, b):
        self._tick()
        d = self._b.read(len(b))
        b[:len(d)] = d
        return len(d)

    def write(self, b):
        self._tick()
        return self._b.write(bytes(b))

    def seek(self, off, whence=0):
        self._tick()
        return self._b.seek(off, whence)

    def tell(self):
        return self._b.tell()

    def truncate(self, n=None):
        self._tick()
        return self._b.truncate(n)

    def flush(self):
        pass

    def close(self):
        self.close_calls += 1
        io.RawIOBase.close(self)

    def getvalue(self):
        return self._b.getvalue()


class BufferedLike(io.BytesIO):
    """an in-memory object with the semantics of open(path, "rb+") - what mutagen works on whenever it is given a file
    name - where they differ from io.BytesIO: read(n) with n < -1 raises ValueError instead of reading everything, and
    truncate(n) beyond the end extends the file with zeros, and a seek to a position before the start of the file raises
    OSError(EINVAL) (io.BytesIO raises ValueError for a negative absolute position and silently stops at 0 for relative
    ones)"""

    def seek(self, off, whence=0):
        base = 0 if whence == 0 else self.tell() if whence == 1 else len(self.getvalue())
        if whence in (0, 1, 2) and isinstance(off, int) and base + off < 0:
            raise OSError(errno.EINVAL, "Invalid argument")
        return io.BytesIO.seek(self, off, whence)

    def read(self, n=-1):
        if n is not None and n < -1:
            raise ValueError("read length must be non-negative or -1")
        if n is not None and n >= (1 << 63):
            raise OverflowError("Python int too large to convert to C ssize_t")
        if n is not None and n > (1 << 40):
            # a buffered file allocates the requested size before it reads: a terabyte is a MemoryError on any machine
            raise MemoryError()
        return io.BytesIO.read(self, n)

    def truncate(self, n=None):
        size = len(self.getvalue())
        if n is not None and n > size:
            pos = self.tell()
            self.seek(0, 2); self.write(b"\0" * (n - size)); self.seek(pos)
            return n
        return io.BytesIO.truncate(self, n)
