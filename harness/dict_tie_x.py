"""dict_tie_x.py — correspondence of the Lean dictionary models of MP4Tags, ASFTags, EasyMP4Tags and EasyID3
(lean/MutagenModel/Model/DictMp4.lean, DictAsf.lean, DictEasyMp4.lean, DictEasyId3.lean; driver command `dictx`,
lean/Driver/DictX.lean) with the real objects.

Operation sequences come from the generators of props/c16.py (same kinds, key and value universes, weights).  An
operation whose key or value the model's value language cannot express is dropped from the sequence (counted in
hist["tie-x:dropped-op"]); the rest runs on a fresh real object and on the driver.  After every operation the items and
the length are observed on both sides (for Easy views also the native tags), so the comparison is outcome by outcome:
returned value / exception class / resulting keys and values.  The model's copies of tables of /repo (MP4Tags.__atoms,
the Easy registries) are compared with the live objects first.  File objects (FLAC / MP3 / APEv2File proxies, with tags and with
tags None) are replayed against `fileStep` over the tag store's model (driver kinds filevc / fileid3 / fileape).
"""
import os, sys, json
from vcheck import parse_fields

PYERR = {"KeyError": "key", "ValueError": "value", "TypeError": "type", "AttributeError": "attribute", "IndexError": "index",
         "AssertionError": "assertion", "error": "struct", "OverflowError": "overflow"}


def _base():
    from props import c16
    return c16


# ---------------------------------------------------------------------------------------
# specs / real values -> the driver's value language

class Unmodelled(Exception):
    pass


def enc_text(s):
    try:
        return s.encode("utf-8").hex()
    except UnicodeEncodeError:
        raise Unmodelled("lone surrogate")


def enc_prim(c):
    t = c[0]
    if t == "s": return "s" + enc_text(c[1])
    if t == "b": return "b" + c[1]
    if t == "i": return "i%d" % int(c[1])
    if t == "n": return "n"
    if t == "B": return "B1" if c[1] else "B0"
    if t == "f":
        x = float(c[1])
        m = round(x * 1000)
        if x != x or x in (float("inf"), float("-inf")) or m / 1000.0 != x: raise Unmodelled("float")
        return "f%d" % m
    raise Unmodelled(t)


def enc_item(c):
    t = c[0]
    if t == "t": return "_".join(["t"] + [enc_prim(x) for x in c[1]])
    if t == "cover": return "c%d_%s" % (c[2] if len(c) > 2 else 13, c[1])
    if t == "asfv": return "a%d_%s" % (asf_type(c[1]), enc_prim(c[2]))
    return enc_prim(c)


def enc_val(c):
    if c[0] == "l": return ".".join(["l"] + [enc_item(x) for x in c[1]])
    return enc_item(c)


def enc_key(c):
    t = c[0]
    if t in ("s", "i", "n", "b"): return enc_prim(c)
    if t in ("t", "l"):
        for x in c[1]:
            if x[0] in ("B", "f"): raise Unmodelled("bool/float inside a key")
        return "_".join(["t" if t == "t" else "L"] + [enc_prim(x) for x in c[1]])
    raise Unmodelled(t)


_ASF_TYPES = {}


def asf_type(clsname):
    if not _ASF_TYPES:
        import mutagen.asf._attrs as A
        for n in dir(A):
            cls = getattr(A, n)
            if isinstance(cls, type) and issubclass(cls, A.ASFBaseAttribute) and getattr(cls, "TYPE", None) is not None:
                _ASF_TYPES[n] = cls.TYPE
    return _ASF_TYPES[clsname]


def xcanon(v):
    """canonical spec of a real Python value (MP4Cover keeps its format; ASF attributes their class)"""
    if v is None: return ["n"]
    if isinstance(v, bool): return ["B", v]
    if isinstance(v, int): return ["i", int(v)]
    if isinstance(v, float): return ["f", repr(v)]
    if isinstance(v, str): return ["s", str(v)]
    try:
        from mutagen.mp4 import MP4Cover
        if isinstance(v, MP4Cover): return ["cover", bytes(v).hex(), int(v.imageformat)]
    except ImportError:
        pass
    if isinstance(v, (bytes, bytearray)): return ["b", bytes(v).hex()]
    if isinstance(v, list): return ["l", [xcanon(x) for x in v]]
    if isinstance(v, tuple): return ["t", [xcanon(x) for x in v]]
    from mutagen.asf._attrs import ASFBaseAttribute
    if isinstance(v, ASFBaseAttribute): return ["asfv", type(v).__name__, xcanon(v.value)]
    raise Unmodelled(type(v).__name__)


def spec_key(k): return enc_key(k)


def spec_val(v):
    if v[0] == "cover": return enc_item(["cover", v[1], 13])
    if v[0] == "l": return ".".join(["l"] + [spec_val(x) if x[0] == "cover" else enc_item(x) for x in v[1]])
    return enc_val(v)


def enc_op(op):
    n = op[0]
    if n in ("keys", "values", "items", "len", "clear", "popitem", "native"): return n
    if n == "upd": return ":".join(["upd"] + [x for k, v in op[1] for x in (spec_key(k), spec_val(v))])
    if n in ("get", "del", "in", "pop"): return "%s:%s" % (n, spec_key(op[1]))
    return "%s:%s:%s" % (n, spec_key(op[1]), spec_val(op[2]))


def modelled(op):
    try:
        enc_op(op)
        return True
    except Unmodelled:
        return False


def err_name(e):
    c = _base().exc_class(e)
    return "E" + PYERR.get(c, c)


def real_outcome(kind, obj, op, env):
    """run `op` on the real object; the outcome in the driver's output alphabet"""
    n = op[0]
    try:
        raw = kind.do(obj, op, env)
    except Exception as e:
        return err_name(e)
    try:
        if n in ("set", "del", "clear", "upd"): return "N"
        if n == "keys": return "K" + ";".join(sorted(enc_key(xcanon(k)) for k in raw))
        if n == "items":
            return "I" + ";".join("%s~%s" % it for it in sorted((enc_key(xcanon(k)), enc_val(xcanon(v))) for k, v in raw))
        if n == "values":
            its = sorted((enc_key(xcanon(k)), enc_val(xcanon(obj[k]))) for k in obj.keys())
            return "W" + ";".join(v for _, v in its)
        if n == "popitem": return "P%s~%s" % (enc_key(xcanon(raw[0])), enc_val(xcanon(raw[1])))
        if n == "in": return "B1" if raw else "B0"
        if n == "len": return "L%d" % raw
        return "V" + enc_val(xcanon(raw))
    except Unmodelled as u:
        return "?unmodelled-result:%s" % u


# ---------------------------------------------------------------------------------------
# kinds

class XKind(object):
    name = "?"            # driver kind
    base_name = None      # kind name in props/c16.py
    observe = (["items"], ["len"])

    extra_keys = ()       # added to the key universe of the c16 kind
    extra_values = ()     # added to its value universe

    def base(self):
        """the kind of props/c16.py, its universes extended by extra_keys / extra_values"""
        k = _base().KIND_BY_NAME[self.base_name]
        xk = self

        class Ext(type(k)):
            def keys_universe(self, rng): return list(type(k).keys_universe(self, rng)) + list(xk.extra_keys)
            def values_universe(self, rng): return list(type(k).values_universe(self, rng)) + list(xk.extra_values)
        return Ext()

    def native(self, obj):
        return None

    def tables(self, ctx):
        return []

    # hooks (file kinds override them)
    def modelled(self, op): return modelled(op)
    def enc_op(self, op): return enc_op(op)
    def outcome(self, kind, obj, op, env): return real_outcome(kind, obj, op, env)
    def start(self, kind, obj, env): return ""        # extra request arguments describing the initial state
    def note(self, ctx, kind, obj, op, outcome): pass


class Mp4X(XKind):
    name = "mp4"; base_name = "MP4Tags"
    # shapes that reach the other branches of the render functions (iteration of str / bytes / tuple values, unpacking of
    # 2-character strings and 2-byte strings, comparisons with None / str, struct.pack of a float, bool as int, int64 bounds)
    extra_keys = [["s", k] for k in ("plID", "akID", "pgap", "egid", "----", "----:a", "----:a:b:c", "trknXX", "dis", "\xa9mvi",
                                      "----\u20ac:a:b", "covr:x", "\xa9gen")]
    extra_values = [["s", ""], ["s", "ab"], ["b", ""], ["b", "6162"], ["l", [["b", "6162"]]], ["t", []], ["l", [["s", "ab"]]],
                    ["l", [["t", [["s", "x"], ["s", "y"]]]]], ["l", [["t", [["i", 1], ["n"]]]]], ["l", [["t", [["f", "1.5"], ["i", 2]]]]],
                    ["l", [["t", [["i", 2], ["f", "1.5"]]]]], ["l", [["t", [["B", True], ["B", False]]]]],
                    ["l", [["t", [["i", -1], ["i", 2]]]]], ["l", [["t", [["i", 1], ["i", -2]]]]], ["l", [["t", [["n"], ["i", 70000]]]]],
                    ["l", [["t", [["i", 70000], ["n"]]]]], ["t", [["s", "a"], ["s", "b"]]], ["t", [["b", "61"]]],
                    ["l", [["t", [["s", "a"]]]]], ["cover", "6162"], ["l", [["f", "3.5"]]], ["l", [["B", True]]],
                    ["l", [["i", 2 ** 63 - 1], ["i", -2 ** 63]]], ["l", [["i", -2 ** 63 - 1]]], ["l", [["t", [["i", 65535], ["i", 0]]]]],
                    ["l", [["t", [["i", 1], ["i", 2], ["i", 3]]]]], ["l", [["t", [["i", 1], ["i", 2]]], ["i", 3]]], ["B", False],
                    ["l", [["cover", "6162"], ["b", "63"]]], ["f", "70000.5"], ["l", [["t", [["f", "70000.5"], ["n"]]]]]]

    def tables(self, ctx):
        from mutagen.mp4 import MP4Tags
        names = {"__render_freeform": "freeform", "__render_pair": "pair", "__render_pair_no_trailing": "pairnt",
                 "__render_bool": "bool", "__render_cover": "cover", "__render_text": "text"}
        rows = []
        for name, info in MP4Tags._MP4Tags__atoms.items():
            fn = info[1]
            if fn is None: kind = "genre"
            elif fn.__name__ == "__render_integer": kind = "int%d" % info[2]
            else: kind = names.get(fn.__name__, fn.__name__)
            rows.append("%s:%s" % (name.hex(), kind))
        return [("mp4atoms", ";".join(sorted(rows)))]


class AsfX(XKind):
    name = "asf"; base_name = "ASFTags"
    extra_keys = [["l", [["s", "a"]]], ["l", []], ["t", []], ["s", "TITLE"]]
    extra_values = [["l", [["B", True], ["b", "00"], ["i", 0], ["i", 2 ** 32 - 1]]], ["i", 2 ** 32], ["l", [["i", -1], ["n"]]],
                    ["l", [["n"], ["i", -1]]], ["l", [["asfv", "ASFWordAttribute", ["i", 7]], ["s", "z"]]],
                    ["asfv", "ASFBoolAttribute", ["B", False]], ["asfv", "ASFGUIDAttribute", ["b", "00" * 16]],
                    ["l", [["t", [["s", "a"]]]]]]


class EasyMp4X(XKind):
    name = "easymp4"; base_name = "EasyMP4Tags"
    observe = (["items"], ["len"], ["native"])
    extra_keys = [["s", k] for k in ("bpm", "BPM", "tracknumber", "TrackNumber", "discnumber", "musicbrainz_trackid", "title", "TITLE",
                                      "trac\u212anumber", "tmpo", "\xa9nam", "date")] + [["l", [["s", "title"]]], ["t", []]]
    extra_values = [["s", " 1_0 "], ["s", "+5/-3"], ["s", "1/2/3"], ["s", "1/x"], ["s", "/"], ["s", "4/"], ["s", "007"], ["s", "1__0"],
                    ["s", "\xa07\u2003"], ["s", "\x1c7"], ["l", [["s", "3"], ["s", "99999"], ["s", "-1"]]], ["l", [["s", "1/2"], ["s", "3"]]],
                    ["b", "3132"], ["l", [["b", "3132"]]], ["l", [["b", "312f32"]]], ["l", [["f", "3.5"]]], ["l", [["B", True]]], ["f", "3.5"],
                    ["t", [["s", "5"], ["s", "6"]]], ["l", [["t", [["s", "1"], ["s", "2"]]]]], ["s", ""], ["l", [["s", ""]]], ["b", ""],
                    ["l", [["s", "x"], ["n"]]], ["l", [["i", 70000]]], ["l", [["i", -4]]], ["s", "\u00e9\U0001f3b5"], ["l", [["s", "0/0"]]],
                    ["l", [["s", "5/0"]]], ["s", "12 "]]

    def native(self, obj):
        nat = obj._EasyMP4Tags__mp4
        return ";".join("%s~%s" % it for it in sorted((enc_key(xcanon(k)), enc_val(xcanon(v))) for k, v in nat.items()))

    def tables(self, ctx):
        from mutagen.easymp4 import EasyMP4Tags as E
        assert list(E.Get.keys()) == list(E.Set.keys()) == list(E.Delete.keys()) and not E.List
        rows = []
        for k, f in E.Get.items():
            q = f.__qualname__.split(".")[1]
            setter = E.Set[k]
            cells = dict(zip(setter.__code__.co_freevars, [c.cell_contents for c in setter.__closure__]))
            atom = dict(zip(f.__code__.co_freevars, [c.cell_contents for c in f.__closure__]))["atomid"]
            kind = {"RegisterTextKey": "text", "RegisterFreeformKey": "freeform",
                    "RegisterIntKey": "int%s..%s" % (cells.get("min_value"), cells.get("max_value")),
                    "RegisterIntPairKey": "pair%s..%s" % (cells.get("min_value"), cells.get("max_value"))}.get(q, q)
            rows.append("%s:%s:%s" % (k.encode("utf-8").hex(), atom.encode("utf-8").hex(), kind))
        return [("easymp4", ";".join(rows))]


def _hx(s):
    return s.encode("utf-8").hex()


class EasyId3X(XKind):
    """all EasyID3 kinds of props/c16.py (exact keys, performer:*, replaygain_*, glob keys with case variants, typed roles) share
    the driver kind `easyid3`; the native ID3 is compared after every operation"""
    name = "easyid3"; base_name = "EasyID3"
    observe = (["items"], ["len"], ["native"])
    extra_keys = [["s", k] for k in ("title", "TITLE", "genre", "date", "originaldate", "website", "musicbrainz_trackid", "barcode",
                                      "performer", "performer:guitar", "PERFORMER:guitar", "performer:Guitar", "performer:", "performer:*",
                                      "replaygain_album_gain", "replaygain_album_peak", "REPLAYGAIN_ALBUM_GAIN", "replaygain__gain",
                                      "replaygain_*_gain", "replaygain_*_peak", "replaygain_track_peak", "albumartistsort", "TIT2",
                                      "replaygain_album_pea\u212a")]
    extra_values = [["s", "Rock"], ["l", [["s", "Rock"], ["s", "Pop Rock"]]], ["s", "2004-01-02T03:04:05"], ["s", "2004-01-02 03"],
                    ["l", [["s", "2004"], ["s", "2005-06"]]], ["s", "+1.5 dB"], ["s", "-3.25"], ["s", "0.5"], ["s", "1.999"],
                    ["s", "1.999999"], ["s", "63.999 dB"], ["s", "64"], ["s", "-64"], ["s", "-64.1 dB"], ["s", "0"], ["s", " 0.25 "],
                    ["s", ""], ["s", "  "], ["s", "garbage"], ["s", "1e1"], ["s", "2"], ["s", "-0.5"], ["l", [["s", "http://a"], ["s", "http://b"], ["s", "http://a"]]],
                    ["s", "abc"], ["s", "\u00e9"], ["l", [["i", 3]]], ["l", [["n"]]], ["l", [["s", "1"], ["s", "2"]]], ["l", []],
                    ["s", "17"], ["s", "(17)"], ["s", "CR"], ["s", "0.1234567"], ["s", "x y"]]

    def __init__(self, base_name="EasyID3"):
        self.base_name = base_name

    def native(self, obj):
        import mutagen.id3 as I
        from mutagen.id3._frames import TimeStampTextFrame
        out = []
        for hk, f in obj._EasyID3__id3.items():
            if isinstance(f, TimeStampTextFrame): d = "S%d:%s" % (int(f.encoding), ".".join(_hx(x.text) for x in f.text))
            elif isinstance(f, I.TMCL): d = "M%d:%s" % (int(f.encoding), ".".join(_hx(a) + "-" + _hx(b) for a, b in f.people))
            elif isinstance(f, I.TextFrame): d = "T%d:%s" % (int(f.encoding), ".".join(_hx(x) for x in f.text))
            elif isinstance(f, I.UFID): d = "U%s:%s" % (_hx(f.owner), f.data.hex())
            elif isinstance(f, I.WOAR): d = "W" + _hx(f.url)
            elif isinstance(f, I.RVA2): d = "R%s:%d:%d:%d" % (_hx(f.desc), f.channel, round(f.gain * 1000000), round(f.peak * 1000000))
            else: d = "?" + type(f).__name__
            out.append((_hx(hk), d))
        return ";".join("%s~%s" % it for it in sorted(out))

    def tables(self, ctx):
        if self.base_name != "EasyID3": return []
        from mutagen.easyid3 import EasyID3 as E
        assert list(E.Get.keys()) == list(E.Set.keys()) == list(E.Delete.keys())
        assert sorted(E.List.keys()) == ["performer:*", "replaygain_*_gain"]
        assert E.GetFallback is None and E.SetFallback is None and E.DeleteFallback is None and E.ListFallback is None
        rows = []
        for k, f in E.Get.items():
            assert "?" not in k and "[" not in k
            q = f.__qualname__
            c = dict(zip(f.__code__.co_freevars, [x.cell_contents for x in (f.__closure__ or [])]))
            for reg, suffix in ((E.Set, ("setter", "_set")), (E.Delete, ("deleter", "_delete"))):
                want = q.replace("getter", suffix[0]).replace("_get", suffix[1])
                assert reg[k].__qualname__ == want, (k, reg[k].__qualname__, want)
            if "RegisterTextKey" in q: kind = "text:" + _hx(c["frameid"])
            elif "RegisterTXXXKey" in q: kind = "txxx:" + _hx(c["frameid"][5:])
            else:
                kind = {"genre_get": "genre", "date_get": "date:" + _hx("TDRC"), "original_date_get": "date:" + _hx("TDOR"),
                        "performer_get": "performer", "musicbrainz_trackid_get": "trackid", "website_get": "website",
                        "gain_get": "gain", "peak_get": "peak"}.get(q, q)
            rows.append("%s:%s" % (_hx(k), kind))
        return [("easyid3", ";".join(rows))]


# ---- FileType proxies (lean/MutagenModel/Model/DictFile.lean: fileImpl / fileStep; theorem file_refines)

def _old_outcome(kind, obj, op, env):
    """outcome of `op` on the real object in the output alphabet of the driver command `dict` (props/c16.py)"""
    base = _base()
    n = op[0]
    try:
        raw = kind.do(obj, op, env)
    except Exception as e:
        return err_name(e)
    try:
        if n in ("set", "del", "clear", "upd"): return "N"
        if n == "keys": return "K" + ";".join(sorted(base.enc_key(base.canon(k, env)) for k in raw))
        if n == "items":
            return "I" + ";".join("%s=%s" % it for it in sorted((base.enc_key(base.canon(k, env)), base.enc_val(base.canon(v, env))) for k, v in raw))
        if n == "values":
            its = sorted((base.enc_key(base.canon(k, env)), base.enc_val(base.canon(obj[k], env))) for k in obj.keys())
            return "W" + ";".join(v for _, v in its)
        if n == "popitem": return "P%s=%s" % (base.enc_key(base.canon(raw[0], env)), base.enc_val(base.canon(raw[1], env)))
        if n == "in": return "B1" if raw else "B0"
        if n == "len": return "L%d" % raw
        return "V" + base.enc_val(base.canon(raw, env))
    except Exception as u:
        return "?unmodelled-result:%s" % type(u).__name__


class FileX(XKind):
    """a FileType over its tags: c16's proxy kinds (and an APEv2File one made here), with tags and with tags None; the initial
    tags travel in the request (`tags=`, `init=`).  A tag-less file answers KeyError to every lookup, also for a key its tag
    format calls invalid (ValueError for Vorbis comments): the model follows the code (file_vc_invalid_key_witness), the
    occurrences are counted in hist["tie-x:<kind>:tagless-lookup-KeyError-for-invalid-key"]."""
    observe = (["items"], ["len"])

    def __init__(self, name, base_name, sample=None, loader=None, inner=None, policy=None):
        self.name = name; self.base_name = base_name
        self.sample = sample; self.loader = loader; self.inner = inner; self.policy = policy

    def base(self):
        base = _base()
        if self.base_name in base.KIND_BY_NAME:
            return base.KIND_BY_NAME[self.base_name]
        xk = self

        class ApeFileKind(base.ProxyFileKind):
            name = xk.base_name; sample = xk.sample; loader = staticmethod(xk.loader)
            inner = base.KIND_BY_NAME[xk.inner]; policy = base.KIND_BY_NAME[xk.inner].policy
        return ApeFileKind()

    def modelled(self, op):
        if self.name == "fileid3": return modelled(op)
        return _base().modelled_op(op)

    def enc_op(self, op):
        if self.name == "fileid3": return enc_op(op)
        return _base().enc_op(op)

    def outcome(self, kind, obj, op, env):
        if self.name == "fileid3":
            return real_outcome_env(kind, obj, op, env)
        return _old_outcome(kind, obj, op, env)

    def start(self, kind, obj, env):
        base = _base()
        if obj.tags is None: return " tags=0"
        if self.name == "filevc":
            init = ";".join("%s:%s" % (base.enc_key(base.S(k)), base.enc_atom(base.canon(v))) for k, v in list(obj.tags))
        elif self.name == "fileape":
            init = ";".join("%s:%s" % (base.enc_key(base.S(k)), base.enc_val(base.canon(obj.tags[k]))) for k in obj.tags.keys())
        else:
            parts = []
            for k in obj.tags.keys():
                env.frames[id(obj.tags[k])] = "loaded:" + k
                parts.append("%s~%s" % (enc_key(["s", k]), frame_token("loaded:" + k)))
            init = ";".join(parts)
        return " tags=1 init=%s" % (init or "-")

    def note(self, ctx, kind, obj, op, outcome):
        if outcome == "Ekey" and obj.tags is None and op[0] in ("get", "del", "pop") and len(op) > 1 and op[1][0] == "s":
            try:
                self.base().inner.policy.norm(op[1], "get")
            except Exception as e:
                if "KeyError" not in getattr(e, "classes", {"KeyError"}):
                    ctx.hist["tie-x:%s:tagless-lookup-KeyError-for-invalid-key" % self.name] += 1


def frame_token(uid):
    return "a255_s" + uid.encode("utf-8").hex()


def xcanon_env(v, env):
    from mutagen.id3 import Frame
    if isinstance(v, Frame):
        uid = env.frames.get(id(v))
        if uid is None: raise Unmodelled("unknown frame")
        return ["frametok", uid]
    if isinstance(v, list): return ["l", [xcanon_env(x, env) for x in v]]
    if isinstance(v, tuple): return ["t", [xcanon_env(x, env) for x in v]]
    return xcanon(v)


def enc_val_env(c):
    if c[0] == "frametok": return frame_token(c[1])
    if c[0] == "l": return ".".join(["l"] + [enc_val_env(x) if x[0] == "frametok" else enc_item(x) for x in c[1]])
    return enc_val(c)


def real_outcome_env(kind, obj, op, env):
    """as real_outcome, for values that may be ID3 frames (opaque tokens named by the harness)"""
    n = op[0]
    try:
        raw = kind.do(obj, op, env)
    except Exception as e:
        return err_name(e)
    try:
        ev = lambda v: enc_val_env(xcanon_env(v, env))
        if n in ("set", "del", "clear", "upd"): return "N"
        if n == "keys": return "K" + ";".join(sorted(enc_key(xcanon(k)) for k in raw))
        if n == "items": return "I" + ";".join("%s~%s" % it for it in sorted((enc_key(xcanon(k)), ev(v)) for k, v in raw))
        if n == "values": return "W" + ";".join(v for _, v in sorted((enc_key(xcanon(k)), ev(obj[k])) for k in obj.keys()))
        if n == "popitem": return "P%s~%s" % (enc_key(xcanon(raw[0])), ev(raw[1]))
        if n == "in": return "B1" if raw else "B0"
        if n == "len": return "L%d" % raw
        return "V" + ev(raw)
    except Unmodelled as u:
        return "?unmodelled-result:%s" % u


def _apev2file():
    from mutagen.apev2 import APEv2File
    return APEv2File


_spec_val_plain = spec_val


def spec_val(v):
    """value spec -> driver language; an ID3 frame spec (["frame", fid, kwargs, uid]) is the token of its uid"""
    if v[0] == "frame": return frame_token(v[3])
    if v[0] == "l" and any(x[0] == "frame" for x in v[1]):
        return ".".join(["l"] + [frame_token(x[3]) if x[0] == "frame" else enc_item(x) for x in v[1]])
    return _spec_val_plain(v)


XKINDS = [Mp4X(), AsfX(), EasyMp4X(), EasyId3X("EasyID3"), EasyId3X("EasyID3:performer"), EasyId3X("EasyID3:replaygain"),
          EasyId3X("EasyID3:glob-case"), EasyId3X("EasyID3:performer-roles"),
          FileX("filevc", "FLAC-proxy"), FileX("filevc", "FLAC-proxy:no-tags"),
          FileX("fileid3", "MP3-proxy"), FileX("fileid3", "MP3-proxy:no-tags"),
          FileX("fileape", "APEv2File-proxy", sample="silence-44-s.wv", loader=_apev2file, inner="APEv2"),
          FileX("fileape", "APEv2File-proxy:no-tags", sample="click.mpc", loader=_apev2file, inner="APEv2")]


# ---------------------------------------------------------------------------------------

def run(ctx, only=None):
    base = _base()
    rng = ctx.rng
    maxlen = ctx.budget(40, 200)
    nseq = ctx.budget(150, 600)
    if not ctx.model_ok():
        ctx.notes.append("dict_tie_x: driver unavailable, tie skipped")
        return 0
    probe = ctx.driver.ask(["dictx kind=mp4 ops=len"])
    if probe[0].strip() != "ok out=L0":
        ctx.notes.append("dict_tie_x: the driver does not know `dictx` (Driver/DictX.lean not hooked into Driver/Main.lean): tie skipped")
        return 0
    total = 0
    for xk in XKINDS:
        if only and xk.name not in only: continue
        # tables first
        for tname, live in xk.tables(ctx):
            ans = ctx.driver.ask(["dictx table=%s" % tname])[0]
            st, f = parse_fields(ans)
            ctx.traces_validated += 1
            if st != "ok" or f.get("table") != live:
                ctx.disagree("dictx:%s:table:%s" % (xk.name, tname), {"table": tname}, model=f.get("table", ans)[:300], impl=live[:300])
        kind = xk.base()
        lines = []; cases = []
        seqs = [ops for kname, ops in base.CORPUS if kname == xk.base_name]
        for si in range(nseq):
            wild = (si % 3 == 2)
            seqs.append(base.gen_ops(kind, rng, maxlen if si % 4 else min(maxlen, 12), wild))
        for si, ops0 in enumerate(seqs):
            ops = [op for op in ops0 if xk.modelled(op)]
            ctx.hist["tie-x:dropped-op"] += len(ops0) - len(ops)
            env = kind.new_env() if hasattr(kind, "new_env") else base.Env()
            obj = kind.make(env)
            extra = xk.start(kind, obj, env)
            seq = []; exp = []
            changed = raised = 0
            for op in ops:
                o = xk.outcome(kind, obj, op, env)
                xk.note(ctx, kind, obj, op, o)
                seq.append(xk.enc_op(op)); exp.append(o)
                if o.startswith("E"): raised += 1
                ctx.hist["tie-x:%s:%s" % (xk.name, o[:1] if not o.startswith("E") else o)] += 1
                for obs in xk.observe:
                    seq.append(xk.enc_op(obs))
                    exp.append(xk.outcome(kind, obj, obs, env) if obs[0] != "native" else "X" + xk.native(obj))
                if op[0] in ("set", "del", "upd", "setd", "pop", "popd", "popitem", "clear") and not o.startswith("E"): changed += 1
            lines.append("dictx kind=%s%s ops=%s" % (xk.name, extra, ",".join(seq) if seq else "-"))
            cases.append((ops, exp))
            ctx.case(key=("tie-x", xk.name, tuple(op[0] for op in ops)), nontrivial=(changed > 0 and raised > 0), modelled=True,
                     sample={"kind": xk.name, "ops": ops[:5], "n_ops": len(ops)} if si == 1 else None)
        answers = ctx.driver.ask(lines)
        for (ops, exp), ans in zip(cases, answers):
            ctx.traces_validated += 1
            total += 1
            st, f = parse_fields(ans)
            got = f.get("out", "").split("|") if st == "ok" else [ans]
            if got == ["-"]: got = []
            if "Enotimplemented" in got:
                # the model says "outside the model" (documented limits, e.g. int() of a string with characters above U+00FF):
                # the comparison stops before that output
                j = got.index("Enotimplemented")
                got = got[:j]; exp = exp[:j]
                ctx.hist["tie-x:%s:outside-model" % xk.name] += 1
            pj = next((j for j in range(min(len(got), len(exp))) if got[j] != exp[j]), None)
            if pj is not None and got[pj].startswith("P") and exp[pj].startswith("P"):
                # popitem took another present key (the real keys() of EasyID3 comes out of a hash set; popitem is angelic in
                # the theorems): the comparison stops here
                got = got[:pj]; exp = exp[:pj]
                ctx.hist["tie-x:%s:popitem-other-key" % xk.name] += 1
            if got != exp:
                i = next((j for j in range(min(len(got), len(exp))) if got[j] != exp[j]), min(len(got), len(exp)))
                per = 1 + len(xk.observe)
                ctx.disagree("dictx:%s" % xk.name, {"kind": xk.name, "ops": ops[:i // per + 1], "first_difference_at_output": i,
                                                    "op": ops[i // per] if i // per < len(ops) else None,
                                                    "observation": (["op"] + [o[0] for o in xk.observe])[i % per]},
                             model=got[i][:300] if i < len(got) else None, impl=exp[i][:300] if i < len(exp) else None)
        ctx.hist["tie-x:%s:sequences" % xk.name] += len(cases)
    ctx.extra["dict_tie_x_sequences"] = total
    return total


if __name__ == "__main__":
    # standalone: python harness/dict_tie_x.py [quick|thorough] [kind …]   (driver must be built)
    here = os.path.dirname(os.path.abspath(__file__))
    sys.path.insert(0, here)
    import vcheck
    tier = sys.argv[1] if len(sys.argv) > 1 else "quick"
    ctx = vcheck.Ctx("C16", tier, int(os.environ.get("VERIF_SEED", "0") or 0))
    ctx.build = vcheck.BuildStatus(); ctx.driver = vcheck.Driver(os.path.exists(vcheck.DRIVER))
    n = run(ctx, only=set(sys.argv[2:]) or None)
    print("sequences compared: %d   disagreements: %d   notes: %s" % (n, len(ctx.disagreements), ctx.notes))
    for d in ctx.disagreements[:8]:
        print(json.dumps(d, default=repr)[:1500])
    print({k: v for k, v in sorted(ctx.hist.items()) if k.startswith("tie-x")})
    sys.exit(1 if ctx.disagreements else 0)
