#!/venv/bin/python
"""vcheck.py — the pipeline every check runs (DESIGN §1):

  (A) extract   facts from /repo's current source -> lean/MutagenModel/Generated/*.lean
  (B) prove     lake build + axiom audit of Props/Cxx.lean
  (C) correspond  real mutagen (in-process) vs the Lean driver on the same inputs
  (D) oracle    the property itself evaluated on the implementation's output
  (E) verdict + evidence/Cxx.json

usage: vcheck.py Cxx quick|thorough        vcheck.py Cxx --replay <file>
exit 0 = held on everything explored; 1 = VIOLATION line printed; 2 = harness trouble.
"""
import sys, os, json, time, random, subprocess, fcntl, re, hashlib, importlib, traceback, collections

HERE = os.path.dirname(os.path.abspath(__file__))
VERIF = os.path.dirname(HERE)
REPO = os.environ.get("VERIF_REPO", "/repo")
LEAN = os.path.join(VERIF, "lean")
DRIVER = os.path.join(LEAN, ".lake", "build", "bin", "mdriver")
ALLOWED_AXIOMS = {"propext", "Classical.choice", "Quot.sound"}
FORBIDDEN = re.compile(r"\b(sorry|admit|native_decide|bv_decide|implemented_by|unsafe)\b|^\s*axiom\s|maxHeartbeats\s+0\b", re.M)

sys.path.insert(0, REPO)
sys.path.insert(0, HERE)
os.environ.setdefault("MUTAGEN_VERIF", "1")


def strip_lean_comments(src):
    out = []; i = 0; depth = 0; n = len(src)
    while i < n:
        if src.startswith("/-", i):
            depth += 1; i += 2
        elif depth and src.startswith("-/", i):
            depth -= 1; i += 2
        elif depth:
            i += 1
        elif src.startswith("--", i):
            j = src.find("\n", i)
            i = n if j < 0 else j
        else:
            out.append(src[i]); i += 1
    return "".join(out)


class BuildStatus:
    def __init__(self):
        self.ok = True
        self.problems = []      # list of (kind, detail)
        self.theorems = []      # names in Props/Cxx.lean
        self.axioms = {}        # name -> list
        self.generated = {}     # file -> sha
        self.driver_ok = False
        self.wall = 0.0


class Driver:
    """batch line protocol to the compiled Lean driver"""
    def __init__(self, available):
        self.available = available
        self.calls = 0

    def ask(self, lines):
        if not self.available:
            raise RuntimeError("driver unavailable")
        if not lines:
            return []
        self.calls += len(lines)
        p = None
        for attempt in range(60):
            try:
                p = subprocess.run([DRIVER], input=("\n".join(lines) + "\n").encode(), stdout=subprocess.PIPE,
                                   stderr=subprocess.PIPE, timeout=3600, preexec_fn=_limit_driver)
                break
            except (FileNotFoundError, PermissionError, OSError) as e:
                # another check is relinking the driver right now (regenerated model): wait for it
                if attempt == 59:
                    raise RuntimeError("driver binary unavailable: %s" % e)
                time.sleep(1.0)
        out = p.stdout.decode().split("\n")
        if out and out[-1] == "":
            out.pop()
        if p.returncode != 0 or len(out) != len(lines):
            # the request the driver did not answer (a model that does not come back on an input is a finding about the model)
            # (the driver's output is buffered: the culprit is this request or a later one of the batch, all kept in the file)
            stuck = lines[len(out)] if len(out) < len(lines) else ""
            try:
                os.makedirs(os.path.join(VERIF, "replays"), exist_ok=True)
                with open(os.path.join(VERIF, "replays", "driver-unanswered-request.txt"), "w") as h:
                    h.write("\n".join(lines[len(out):]) + "\n")
            except OSError:
                pass
            raise RuntimeError("driver protocol error: rc=%s got %d lines for %d requests; first unanswered request (replays/"
                               "driver-unanswered-request.txt): %s; stderr=%s" % (p.returncode, len(out), len(lines), stuck[:300], p.stderr.decode()[-400:]))
        return out


def _limit_driver():
    """a request that makes the model build gigabytes of lists must end the driver (reported with the request), not the sandbox"""
    import resource
    try:
        resource.setrlimit(resource.RLIMIT_AS, (24 << 30, 24 << 30))
    except Exception:
        pass


def parse_fields(line):
    """'ok k=v k=v' / 'err name k=v' -> (status, dict)"""
    toks = line.split(" ")
    d = {}
    status = toks[0]
    rest = toks[1:]
    if status == "err" and rest:
        status = "err:" + rest[0]
        rest = rest[1:]
    for t in rest:
        if "=" in t:
            k, v = t.split("=", 1)
            d[k] = v
    return status, d


def hx(b):
    return b.hex() if b else "-"


def unhx(s):
    return b"" if s in ("-", "") else bytes.fromhex(s)


class Ctx:
    def __init__(self, prop, tier, seed):
        self.prop = prop; self.tier = tier; self.seed = seed
        self.rng = random.Random(seed * 1000003 + int(prop[1:]))
        self.verif = VERIF; self.repo = REPO
        self.evaluations = 0
        self.nontrivial = set()
        self.samples = []
        self.hist = collections.Counter()
        self.violations = []     # dicts: kind,key,what,case
        self.disagreements = []  # model vs implementation
        self.traces_validated = 0
        self.modelled_cases = 0
        self.searched_only_cases = 0
        self.notes = []
        self.build = None
        self.driver = None
        self.rule = ""
        self.exhaustive = False
        self.t0 = time.time()
        self.extra = {}

    @property
    def quick(self):
        return self.tier == "quick"

    def budget(self, q, t):
        return q if self.quick else t

    def case(self, key=None, nontrivial=True, sample=None, modelled=True, n=1):
        self.evaluations += n
        if modelled:
            self.modelled_cases += n
        else:
            self.searched_only_cases += n
        if nontrivial and key is not None:
            self.nontrivial.add(key if isinstance(key, (str, int, tuple)) else repr(key))
        if sample is not None and len(self.samples) < 12:
            self.samples.append(sample)

    def violation(self, key, what, case):
        """the property fails on the real code for `case`"""
        self.violations.append({"kind": "failing-input", "key": key, "what": what, "case": case})

    def disagree(self, what, case, model=None, impl=None):
        """model and implementation differ (not by itself a violation)"""
        if len(self.disagreements) < 50:
            self.disagreements.append({"what": what, "case": case, "model": model, "impl": impl})
        else:
            self.disagreements.append(None)

    def model_ok(self):
        return self.build is not None and self.build.ok and self.driver is not None and self.driver.available


# ---------------------------------------------------------------------------------------
# (A)+(B)

def sha(s):
    return hashlib.sha256(s.encode()).hexdigest()[:16]


def run_extract(status):
    import extract
    try:
        files = extract.generate(REPO)
    except Exception as e:  # the translator cannot translate the changed source
        status.ok = False
        status.problems.append(("translator", "extract.py failed: %s: %s" % (type(e).__name__, e)))
        return
    gdir = os.path.join(LEAN, "MutagenModel", "Generated")
    os.makedirs(gdir, exist_ok=True)
    for name, content in files.items():
        path = os.path.join(gdir, name)
        old = None
        if os.path.exists(path):
            with open(path) as f:
                old = f.read()
        if old != content:
            with open(path + ".tmp", "w") as f:
                f.write(content)
            os.replace(path + ".tmp", path)
        status.generated[name] = sha(content)


def lake(args, timeout=3000):
    env = dict(os.environ)
    p = subprocess.run(["lake"] + args, cwd=LEAN, stdout=subprocess.PIPE, stderr=subprocess.STDOUT,
                       timeout=timeout, env=env)
    return p.returncode, p.stdout.decode(errors="replace")


def props_modules(prop):
    """Props/Cxx.lean plus extension files Props/Cxx_<Part>.lean (same namespace Mutagen.Cxx)"""
    import glob
    d = os.path.join(LEAN, "MutagenModel", "Props")
    mods = []
    if os.path.exists(os.path.join(d, prop + ".lean")):
        mods.append(prop)
    mods += sorted(os.path.basename(p)[:-5] for p in glob.glob(os.path.join(d, prop + "_*.lean")))
    return mods


def props_theorems(prop):
    out = []
    for mod in props_modules(prop):
        path = os.path.join(LEAN, "MutagenModel", "Props", mod + ".lean")
        src = strip_lean_comments(open(path).read())
        ns = "Mutagen." + prop
        out += [ns + "." + m for m in re.findall(r"^theorem\s+([A-Za-z_][A-Za-z0-9_'.]*)", src, re.M)]
    return out


def failing_modules(log):
    mods = set(re.findall(r"^- (MutagenModel[\w.]*|Driver[\w.]*)", log, re.M))
    errs = re.findall(r"^error: ([^\n]*)", log, re.M)
    return sorted(mods), errs[:8]


def prepare(prop, need_driver=True, tier="quick"):
    """extract + build + audit under a lock shared by all checks"""
    st = BuildStatus()
    t0 = time.time()
    os.makedirs(os.path.join(LEAN, ".lake"), exist_ok=True)
    with open(os.path.join(LEAN, ".lake", "vcheck.lock"), "w") as lk:
        fcntl.flock(lk, fcntl.LOCK_EX)
        run_extract(st)
        # forbidden tokens anywhere in the library
        for root, _, fs in os.walk(os.path.join(LEAN, "MutagenModel")):
            for fn in fs:
                if fn.endswith(".lean"):
                    src = strip_lean_comments(open(os.path.join(root, fn)).read())
                    m = FORBIDDEN.search(src)
                    if m:
                        st.ok = False
                        st.problems.append(("forbidden", "%s contains %r" % (fn, m.group(0).strip())))
        rc, log = lake(["build"] + ["MutagenModel.Props." + m for m in (props_modules(prop) or [prop])])
        if rc != 0:
            st.ok = False
            mods, errs = failing_modules(log)
            st.problems.append(("build", "lake build MutagenModel.Props.%s failed in %s: %s" % (prop, mods, errs)))
            st.build_log = log[-6000:]
        if need_driver:
            rc2, log2 = lake(["build", "mdriver"])
            st.driver_ok = (rc2 == 0 and os.path.exists(DRIVER))
            if not st.driver_ok:
                mods, errs = failing_modules(log2)
                st.problems.append(("driver", "lake build mdriver failed in %s: %s" % (mods, errs)))
                st.ok = False
                st.build_log = getattr(st, "build_log", "") + log2[-4000:]
        # audit
        st.theorems = props_theorems(prop)
        if rc == 0 and st.theorems:
            apath = os.path.join(LEAN, ".lake", "audit_%s.lean" % prop)
            with open(apath, "w") as f:
                for m in props_modules(prop):
                    f.write("import MutagenModel.Props.%s\n" % m)
                for t in st.theorems:
                    f.write("#print axioms %s\n" % t)
            rc3, out = lake(["env", "lean", apath])
            if rc3 != 0:
                st.ok = False
                st.problems.append(("audit", "audit failed: " + out[-500:]))
            for m in re.finditer(r"'([^']+)' depends on axioms: \[([^\]]*)\]", out):
                st.axioms[m.group(1)] = [a.strip() for a in m.group(2).replace("\n", " ").split(",") if a.strip()]
            for m in re.finditer(r"'([^']+)' does not depend on any axioms", out):
                st.axioms[m.group(1)] = []
            for t in st.theorems:
                if t not in st.axioms:
                    st.ok = False
                    st.problems.append(("audit", "no axiom report for " + t))
                elif not set(st.axioms[t]) <= ALLOWED_AXIOMS:
                    st.ok = False
                    st.problems.append(("audit", "%s uses axioms %s" % (t, st.axioms[t])))
        # thorough tier: the compiled Props module and everything it imports re-checked by the independent checker
        st.leanchecker = None
        if tier == "thorough" and rc == 0:
            rc4, out4 = lake(["env", "leanchecker"] + ["MutagenModel.Props." + m for m in props_modules(prop)])
            st.leanchecker = (rc4 == 0)
            if rc4 != 0:
                st.ok = False
                st.problems.append(("leanchecker", "leanchecker rejects MutagenModel.Props.%s: %s" % (prop, out4[-400:])))
    st.wall = time.time() - t0
    return st


# ---------------------------------------------------------------------------------------
# known findings

def load_known(prop):
    path = os.path.join(VERIF, "known_findings.json")
    if not os.path.exists(path):
        return []
    data = json.load(open(path))
    return [e for e in data.get("findings", []) if e.get("property") == prop]


def write_replay(prop, tag, payload):
    d = os.path.join(VERIF, "replays")
    os.makedirs(d, exist_ok=True)
    path = os.path.join(d, "%s-%s.json" % (prop, tag))
    with open(path, "w") as f:
        json.dump(payload, f, indent=1, default=repr)
    return path


def jsonable(x):
    try:
        json.dumps(x)
        return x
    except Exception:
        return repr(x)


def finish(ctx, mod):
    prop = ctx.prop
    known = [e for e in load_known(prop) if e.get("status") == "open"]

    def entry_for(v):
        """the open known finding that covers violation `v` (same key or key prefix, and its
        `match` predicate - a Python expression over the case dict `p` - holds)"""
        for e in known:
            if "key" in e and e["key"] != v["key"]:
                continue
            if "key_prefix" in e and not v["key"].startswith(e["key_prefix"]):
                continue
            if "key_suffix" in e and not v["key"].endswith(e["key_suffix"]):
                continue
            if "key" not in e and "key_prefix" not in e:
                continue
            m = e.get("match")
            if m:
                try:
                    if not eval(m, {"__builtins__": {}}, {"p": v["case"] if isinstance(v["case"], dict) else {}}):
                        continue
                except Exception:
                    continue
            return e
        return None
    rc = 0
    lines = []
    new_viol = []
    seen_known = {}
    for v in ctx.violations:
        e = entry_for(v)
        if e is None:
            new_viol.append(v)
        else:
            seen_known.setdefault(e.get("id") or e.get("key") or e.get("key_prefix"), (e, v))
    for k, (e, v) in sorted(seen_known.items()):
        lines.append("KNOWN-FINDING: property=%s %s [%s]" % (prop, e.get("what", v["what"]), k))
    # one VIOLATION line per distinct key
    bykey = {}
    for v in new_viol:
        bykey.setdefault(v["key"], v)
    for i, (k, v) in enumerate(sorted(bykey.items())):
        path = write_replay(prop, "viol-%d" % i, {
            "property": prop, "kind": "failing-input", "seed": ctx.seed, "tier": ctx.tier, "key": k,
            "what": v["what"], "case": jsonable(v["case"])})
        lines.append("VIOLATION property=%s replay=%s" % (prop, os.path.relpath(path, VERIF)))
        rc = 1
    broken = []
    if ctx.build is not None and not ctx.build.ok:
        broken += ["%s: %s" % p for p in ctx.build.problems]
    ndis = len(ctx.disagreements)
    if ndis:
        broken.append("correspondence: %d case(s) where the Lean model and the implementation differ" % ndis)
    if broken and not bykey:
        # proof obligation or correspondence no longer checks and the search found no failing input
        path = write_replay(prop, "broken", {
            "property": prop, "kind": "broken-theorem-or-correspondence", "seed": ctx.seed, "tier": ctx.tier,
            "no_longer_checks": broken,
            "build_log_excerpt": getattr(ctx.build, "build_log", "")[-3000:] if ctx.build else "",
            "disagreements": [jsonable(d) for d in ctx.disagreements[:10] if d],
            "search": "the property's generators were run at %s size on the real code; no failing input found" % ctx.tier})
        lines.append("VIOLATION property=%s replay=%s no-failing-input-found" % (prop, os.path.relpath(path, VERIF)))
        rc = 1
    elif broken:
        lines.append("NOTE: also no longer checks: " + "; ".join(broken)[:600])
    write_evidence(ctx, rc, len(bykey) + (1 if (broken and not bykey) else 0))
    for l in lines:
        print(l)
    sys.stdout.flush()
    return rc


def write_evidence(ctx, rc, nviol):
    st = ctx.build
    obligations = len(st.theorems) if st else 0
    discharged = 0
    if st:
        build_ok = not any(k in ("build", "forbidden", "translator") for k, _ in st.problems)
        for t in st.theorems:
            if build_ok and t in st.axioms and set(st.axioms[t]) <= ALLOWED_AXIOMS:
                discharged += 1
    axioms_used = sorted({a for t in (st.axioms if st else {}) for a in st.axioms[t]})
    cov = {
        "obligations": max(obligations, 0),
        "discharged": discharged,
        "checker_cmd": "cd lean && lake build MutagenModel.Props.%s && lake env lean .lake/audit_%s.lean   # run by ./check %s" % (ctx.prop, ctx.prop, ctx.prop)
                       + ("; lake env leanchecker MutagenModel.Props.%s (%s)" % (ctx.prop, "accepted" if getattr(ctx.build, "leanchecker", None) else "REJECTED")
                          if getattr(ctx.build, "leanchecker", None) is not None else ""),
        "trusted_base": [
            "Lean 4.33.0 kernel",
            "axioms used by the property theorems: " + (", ".join(axioms_used) if axioms_used else "none"),
            "harness/extract.py (translator of tables/expressions into Generated/*.lean)",
            "the correspondence check (differential testing on generated inputs) between lean/MutagenModel/Model and /repo",
            "CPython, io.BytesIO / OS file semantics",
        ],
        "theorems": [t.split(".", 2)[-1] for t in (st.theorems if st else [])],
        "evaluations": ctx.evaluations,
        "distinct_nontrivial": len(ctx.nontrivial),
        "rule": ctx.rule,
        "samples": [jsonable(s) for s in ctx.samples] or ["(no case generated)"],
        "traces_validated_against_impl": ctx.traces_validated,
        "modelled_and_proved_cases": ctx.modelled_cases,
        "searched_only_cases": ctx.searched_only_cases,
        "model_impl_disagreements": len(ctx.disagreements),
        "disagreement_samples": [jsonable(d) for d in ctx.disagreements[:6] if d],
        "histogram": {str(k): v for k, v in sorted(ctx.hist.items(), key=lambda kv: str(kv[0]))},
        "generated_files": st.generated if st else {},
        "build_problems": ["%s: %s" % p for p in st.problems] if st else [],
        "build_wall_s": round(st.wall, 2) if st else None,
        "exhaustive": bool(ctx.exhaustive),
        "notes": ctx.notes,
    }
    cov.update(ctx.extra)
    ev = {
        "property_id": ctx.prop, "tier": ctx.tier, "seed": ctx.seed, "level": "proof",
        "coverage": cov,
        "assumptions": getattr(ctx, "assumptions", []) or [
            "the Lean model is tied to the code by regenerated facts and by differential testing only"],
        "wall_s": round(time.time() - ctx.t0, 2),
        "violations": nviol,
    }
    os.makedirs(os.path.join(VERIF, "evidence"), exist_ok=True)
    path = os.path.join(VERIF, "evidence", ctx.prop + ".json")
    with open(path + ".tmp", "w") as f:
        json.dump(ev, f, indent=1, default=repr)
    os.replace(path + ".tmp", path)


def main(argv):
    if len(argv) < 3:
        print(__doc__); return 2
    prop = argv[1]
    replay = None
    if argv[2] == "--replay":
        replay = argv[3]; tier = "quick"
    else:
        tier = argv[2]
    tier = os.environ.get("VERIF_TIER", tier) if argv[2] != "--replay" and False else tier
    seed = int(os.environ.get("VERIF_SEED", "0") or 0)
    ctx = Ctx(prop, tier, seed)
    if not replay:
        import glob
        for old in glob.glob(os.path.join(VERIF, "replays", prop + "-*.json")):
            try:
                os.remove(old)
            except OSError:
                pass
    try:
        mod = importlib.import_module("props." + prop.lower())
        ctx.build = prepare(prop, need_driver=getattr(mod, "NEED_DRIVER", True), tier=tier)
        ctx.driver = Driver(ctx.build.driver_ok)
        if replay:
            payload = json.load(open(replay))
            ctx.replaying = payload
            if payload.get("kind") == "failing-input" and hasattr(mod, "replay"):
                mod.replay(ctx, payload)
            else:
                mod.run(ctx)
        else:
            if not ctx.model_ok():
                # broken proof obligation / translator / driver: search at full size on the real code
                ctx.notes.append("model side broken: running the failing-input search at thorough size")
                ctx.tier_search = "thorough"
            mod.run(ctx)
            if ctx.disagreements and not ctx.violations and hasattr(mod, "search") and ctx.quick:
                ctx.notes.append("correspondence broke: extended search")
                mod.search(ctx)
        return finish(ctx, mod)
    except Exception:
        traceback.print_exc()
        try:
            ctx.notes.append("harness crash: " + traceback.format_exc()[-800:])
            write_evidence(ctx, 2, 0)
        except Exception:
            pass
        return 2


if __name__ == "__main__":
    sys.exit(main(sys.argv))
