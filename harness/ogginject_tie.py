"""ogginject_tie.py — `run(ctx)`: correspondence of the Lean model of Ogg comment injection
(lean/MutagenModel/Model/Container/OggInject.lean: Vorbis, Opus, Speex, Theora, FLAC in Ogg) with
OggFileType.save / OggFileType.delete, the `_inject` internals (which pages are handed to
OggPage.replace) and the comment-reading constructors, and the statements of the container properties
(C02, C03, C07, C08, C09) on the real output for synthesised well-formed multiplexed layouts.

Pages are built, parsed and check-summed here from RFC 3533 alone (no mutagen code), so the
expectations do not depend on the code under test.

The model is asked through the compiled driver (`ogginject fmt=… op=save|delete|walk|read …`); when the
environment variable VERIF_OGGINJECT_DRIVER holds a command line, that command is run instead (one
request per line on stdin, one answer per line on stdout).  VERIF_OGGINJECT_CASES overrides the number of
cases per codec."""
import io, os, shlex, struct, subprocess, types
import vcheck
from vcheck import hx
from guards import timed

DATA = os.path.join(vcheck.REPO, "tests", "data")      # VERIF_REPO, /repo by default (vcheck puts it on sys.path)

CODECS = {
    "vorbis": dict(mod="oggvorbis", cls="OggVorbis", tags="OggVCommentDict", prefix=b"\x03vorbis", framing=True, strip=7,
                   samples=["empty.ogg", "multipagecomment.ogg", "multipage-setup.ogg"], setup=b"\x05vorbis"),
    "opus": dict(mod="oggopus", cls="OggOpus", tags="OggOpusVComment", prefix=b"OpusTags", framing=False, strip=8,
                 samples=["example.opus"], setup=None),
    "speex": dict(mod="oggspeex", cls="OggSpeex", tags="OggSpeexVComment", prefix=b"", framing=False, strip=0,
                  samples=["empty.spx", "multiplexed.spx"], setup=None),
    "theora": dict(mod="oggtheora", cls="OggTheora", tags="OggTheoraCommentDict", prefix=b"\x81theora", framing=False, strip=7,
                   samples=["sample.oggtheora", "sample_length.oggtheora", "sample_bitrate.oggtheora"], setup=b"\x82theora"),
    "flac": dict(mod="oggflac", cls="OggFLAC", tags="OggFLACVComment", prefix=None, framing=False, strip=4,
                 samples=["empty.oggflac"], setup=None),
}

# ---------------------------------------------------------------------------------------------
# RFC 3533 from scratch

_CRC = []
for _i in range(256):
    _r = _i << 24
    for _ in range(8):
        _r = ((_r << 1) ^ 0x04C11DB7) & 0xFFFFFFFF if _r & 0x80000000 else (_r << 1) & 0xFFFFFFFF
    _CRC.append(_r)


def ogg_crc(data):
    c = 0
    for b in data:
        c = ((c << 8) & 0xFFFFFFFF) ^ _CRC[((c >> 24) & 0xFF) ^ b]
    return c


def render_page(p, crc=None):
    """p: dict(serial, seq, pos, flags, segs, body)"""
    hdr = b"OggS" + bytes([p.get("version", 0), p["flags"]]) + struct.pack("<qII", p["pos"], p["serial"], p["seq"])
    tail = bytes([len(p["segs"])]) + bytes(p["segs"]) + p["body"]
    c = ogg_crc(hdr + b"\0\0\0\0" + tail) if crc is None else crc
    return hdr + struct.pack("<I", c) + tail


def strict_parse(f):
    """the whole byte string as a list of pages with correct checksums, or None"""
    pos, out = 0, []
    while pos < len(f):
        if len(f) - pos < 27 or f[pos:pos + 4] != b"OggS" or f[pos + 4] != 0:
            return None
        flags = f[pos + 5]
        gpos, serial, seq, crc, nseg = struct.unpack("<qIIIB", f[pos + 6:pos + 27])
        if len(f) - pos - 27 < nseg:
            return None
        segs = list(f[pos + 27:pos + 27 + nseg])
        n = sum(segs)
        if len(f) - pos - 27 - nseg < n:
            return None
        body = f[pos + 27 + nseg:pos + 27 + nseg + n]
        raw = f[pos:pos + 27 + nseg + n]
        if ogg_crc(raw[:22] + b"\0\0\0\0" + raw[26:]) != crc:
            return None
        out.append(dict(serial=serial, seq=seq, pos=gpos, flags=flags, segs=segs, body=body, offset=pos, raw=raw))
        pos += len(raw)
    return out


def lenient_pages(f):
    """pages as far as they go (no checksum test), for looking at sample files"""
    pos, out = 0, []
    while len(f) - pos >= 27 and f[pos:pos + 4] == b"OggS":
        nseg = f[pos + 26]
        segs = list(f[pos + 27:pos + 27 + nseg])
        n = sum(segs)
        gpos, serial, seq = struct.unpack("<qII", f[pos + 6:pos + 22])
        raw = f[pos:pos + 27 + nseg + n]
        out.append(dict(serial=serial, seq=seq, pos=gpos, flags=f[pos + 5], segs=segs, body=f[pos + 27 + nseg:pos + 27 + nseg + n],
                        offset=pos, raw=raw))
        pos += len(raw)
    return out


def stream_packets(pages):
    """packets of one logical stream from its pages' segment tables: (packets, trailing partial packet or None,
    for each page the indices of the packets it holds a part of)"""
    packets, cur, where, open_ = [], b"", [], False
    for p in pages:
        off, here = 0, []
        for s in p["segs"]:
            cur += p["body"][off:off + s]
            off += s
            open_ = True
            if len(packets) not in here:
                here.append(len(packets))
            if s < 255:
                packets.append(cur)
                cur, open_ = b"", False
        where.append(here)
    return packets, (cur if open_ else None), where


def segs_of(n):
    return [255] * (n // 255) + [n % 255]


def paginate(rng, packets, serial, first_alone=True, maxsegs=255, eos=True, start_pos=0, sizes=None):
    """lay packets out on pages the way libogg does: a flat segment table cut into pages"""
    segs = []  # (packet index, seg length, last seg of packet)
    for i, pk in enumerate(packets):
        ss = segs_of(len(pk))
        for j, s in enumerate(ss):
            segs.append((i, s, j == len(ss) - 1))
    data = b"".join(packets)
    pages, k, doff, seq, gran = [], 0, 0, 0, start_pos
    while k < len(segs):
        if seq == 0 and first_alone:
            n = len(segs_of(len(packets[0])))
        elif sizes:
            n = sizes[min(seq, len(sizes) - 1)]
        else:
            n = rng.randint(1, maxsegs)
        chunk = segs[k:k + n]
        blen = sum(s for _, s, _ in chunk)
        cont = k > 0 and not segs[k - 1][2]
        finishes = sum(1 for _, _, l in chunk if l)
        if finishes:
            gran += finishes * 100
        pos = gran if finishes else -1
        if seq == 0:
            pos = 0
        flags = (1 if cont else 0) | (2 if seq == 0 else 0)
        pages.append(dict(serial=serial, seq=seq, pos=pos, flags=flags, segs=[s for _, s, _ in chunk], body=data[doff:doff + blen]))
        doff += blen
        k += n
        seq += 1
    if eos and pages:
        pages[-1]["flags"] |= 4
    return pages


def interleave(rng, streams, bos_first=True):
    """merge page lists keeping each stream's order; the first pages (bos) in front when asked"""
    out = []
    rest = [list(s) for s in streams]
    if bos_first:
        for s in rest:
            if s:
                out.append(s.pop(0))
    while any(rest):
        s = rng.choice([x for x in rest if x])
        for _ in range(rng.choice([1, 1, 2, 5])):
            if s:
                out.append(s.pop(0))
    return out


def rbytes(rng, n):
    return bytes(rng.randrange(256) for _ in range(n))


# ---------------------------------------------------------------------------------------------
# codec streams

_ID = {}


def id_packet(codec):
    if codec not in _ID:
        with open(os.path.join(DATA, CODECS[codec]["samples"][0]), "rb") as h:
            pages = lenient_pages(h.read())
        _ID[codec] = stream_packets(pages[:1])[0][0]
    return _ID[codec]


def vcomment(vendor, items, framing):
    out = struct.pack("<I", len(vendor)) + vendor + struct.pack("<I", len(items))
    for k, v in items:
        c = k + b"=" + v
        out += struct.pack("<I", len(c)) + c
    return out + (b"\x01" if framing else b"")


def comment_packet(codec, vc, padding=0, pad_data=b""):
    c = CODECS[codec]
    if codec == "flac":
        return b"\x04" + struct.pack(">I", len(vc))[1:] + vc
    return c["prefix"] + vc + (pad_data if pad_data else b"\0" * padding)


COMMENT_SIZES = [0, 1, 30, 200, 254, 255, 256, 509, 510, 1000, 4000, 4335, 9000, 20000, 66000]
PAD_SIZES = [0, 0, 1, 7, 254, 255, 256, 1024, 3000, 11000]


def gen_codec_stream(rng, codec, serial):
    """-> dict(packets, pages, vendor, items, padding, pad_data)"""
    c = CODECS[codec]
    vendor = rng.choice([b"", b"Xiph", b"libfoo 1.2 \xc3\xa9"])
    items = []
    for _ in range(rng.choice([0, 1, 1, 2, 4])):
        items.append((rng.choice([b"TITLE", b"artist", b"X"]), rng.choice([b"", b"v", "Ünï ✓".encode()])))
    want = rng.choice(COMMENT_SIZES)
    if want > 40:
        items.append((b"BIG", b"b" * max(0, want - 40)))
    vc = vcomment(vendor, items, c["framing"])
    padding = rng.choice(PAD_SIZES) if codec != "flac" else 0
    pad_data = b""
    if codec == "opus" and rng.random() < 0.25:
        pad_data = bytes([rng.choice([1, 3, 0xFF])]) + rbytes(rng, rng.choice([0, 3, 300]))
        padding = 0
    packets = [id_packet(codec), comment_packet(codec, vc, padding, pad_data)]
    if c["setup"]:
        packets.append(c["setup"] + rbytes(rng, rng.choice([10, 300, 3825, 9000])))
    elif codec == "flac" and rng.random() < 0.5:
        packets.append(b"\x81\x00\x00\x10" + b"\0" * 16)           # a padding block
    for _ in range(rng.choice([1, 3, 10, 40])):
        packets.append(rbytes(rng, rng.choice([1, 50, 93, 255, 600, 1300])))
    if rng.random() < 0.15:
        packets.append(b"")                                          # an empty packet is legal
        packets.append(rbytes(rng, 20))
    maxsegs = rng.choice([1, 2, 3, 17, 17, 64, 255, 255])
    pages = paginate(rng, packets, serial, maxsegs=maxsegs)
    return dict(packets=packets, pages=pages, vendor=vendor, items=items, padding=padding, pad_data=pad_data, vc=vc)


def gen_foreign_stream(rng, serial):
    packets = [rbytes(rng, rng.choice([8, 21, 80]))] + [rbytes(rng, rng.choice([0, 1, 100, 255, 2000])) for _ in range(rng.choice([0, 1, 4, 12]))]
    return paginate(rng, packets, serial, maxsegs=rng.choice([1, 4, 255]))


def gen_plain(rng, codec):
    serial = rng.choice([0, 1, 100, 0x7FFFFFFF, 0xFFFFFFFF, rng.randrange(1 << 32)])
    st = gen_codec_stream(rng, codec, serial)
    streams = [st["pages"]]
    used = {serial}
    for _ in range(rng.choice([0, 0, 1, 1, 2, 3])):
        s = rng.randrange(1 << 32)
        if s in used:
            continue
        used.add(s)
        streams.append(gen_foreign_stream(rng, s))
    pages = interleave(rng, streams, bos_first=rng.random() < 0.8) if len(streams) > 1 else st["pages"]
    data = b"".join(render_page(p) for p in pages)
    return data, dict(codec=codec, serial=serial, stream=st, pages=pages, nstreams=len(streams))


def load_sample(name):
    with open(os.path.join(DATA, name), "rb") as h:
        return h.read()


FILE_KINDS = ["plain"] * 10 + ["sample"] * 3 + ["truncated", "cut-at-page", "junk-behind", "junk-middle", "lacing-too-big",
                                                      "seq-gap", "never-completes", "two-comments", "no-comment", "empty-page",
                                                      "bad-version", "bad-capture", "bad-crc", "same-codec-twice", "same-codec-twice", "chained",
                                                      "id-not-first", "short-id", "short-id", "tiny", "seq-off", "seq-max", "comment-first-flag", "foreign-junk-tail",
                                                      "flags-hi"]


def gen_file(rng, codec, kind=None, other_first=None):
    """-> (bytes, kind, layout or None); layout only for the well-formed synthesised kinds.  `kind` / `other_first`
    force what is otherwise drawn (the stratified pass of `run`)"""
    kind = kind or rng.choice(FILE_KINDS)
    data, lay = gen_plain(rng, codec)
    pages = lay["pages"]
    if kind == "plain":
        return data, kind, lay
    if kind == "sample":
        name = rng.choice(CODECS[codec]["samples"])
        return load_sample(name), "sample:" + name, None
    if kind == "truncated":
        cut = rng.choice([1, 5, 26, 27, 28, 100, len(data) // 2, len(data) - 1])
        return data[:max(0, len(data) - cut)], kind, None
    if kind == "cut-at-page":
        k = rng.randrange(0, len(pages) + 1)
        return b"".join(render_page(p) for p in pages[:k]), kind, None
    if kind == "junk-behind":
        junk = rng.choice([b"\0", b"TAG" + b"\0" * 125, rbytes(rng, 40), b"OggS", b"OggS\0" + b"\0" * 30, b"Ogg"])
        return data + junk, kind, dict(lay, damaged=kind, junk=junk)
    if kind == "junk-middle":
        k = rng.randrange(1, len(pages) + 1)
        junk = rng.choice([b"\0", rbytes(rng, 30), b"OggS"])
        return b"".join(render_page(p) for p in pages[:k]) + junk + b"".join(render_page(p) for p in pages[k:]), kind, None
    if kind == "lacing-too-big":
        # the last page announces more data than the file holds
        ps = [dict(p) for p in pages]
        ps[-1]["segs"] = ps[-1]["segs"] + [rng.choice([1, 255])]
        return b"".join(render_page(p) for p in ps), kind, None
    if kind in ("seq-gap", "seq-off"):
        ps = [dict(p) for p in pages]
        mine = [p for p in ps if p["serial"] == lay["serial"]]
        k = rng.randrange(0, len(mine)) if kind == "seq-gap" else 0
        d = rng.choice([1, 2, 1000])
        for p in mine[k:]:
            p["seq"] += d
        return b"".join(render_page(p) for p in ps), kind, None
    if kind == "seq-max":
        # the comment run ends on (or just before) the last page number there is: a run that grows, or pages behind a
        # run that changes its length, would need a number of 2**32
        ps = [dict(p) for p in pages]
        mine = [p for p in ps if p["serial"] == lay["serial"]]
        _, _, where = stream_packets(mine)
        run = [p for p, w in zip(mine, where) if 1 in w]
        top = 0xFFFFFFFF - rng.choice([0, 0, 1, 3])
        for k, p in enumerate(run):
            p["seq"] = top - (len(run) - 1 - k)
        return b"".join(render_page(p) for p in ps), kind, None
    if kind == "never-completes":
        # the stream ends inside the comment packet
        mine_idx = [i for i, p in enumerate(pages) if p["serial"] == lay["serial"]]
        _, _, where = stream_packets([pages[i] for i in mine_idx])
        keep = [i for i, w in zip(mine_idx, where) if w and max(w) <= 1]
        cutoff = keep[max(0, len(keep) - 2)] if keep else 0
        ps = [p for i, p in enumerate(pages) if p["serial"] != lay["serial"] or i <= cutoff]
        return b"".join(render_page(p) for p in ps), kind, None
    if kind == "two-comments":
        st = lay["stream"]
        pk = list(st["packets"])
        pk.insert(rng.choice([2, len(pk)]), comment_packet(codec, vcomment(b"second", [(b"A", b"b")], CODECS[codec]["framing"]), 3))
        mine = paginate(rng, pk, lay["serial"], maxsegs=rng.choice([2, 17, 255]))
        return b"".join(render_page(p) for p in mine), kind, None
    if kind == "no-comment":
        st = lay["stream"]
        pk = [st["packets"][0]] + st["packets"][2:]
        if rng.random() < 0.5:
            pk = pk[:1]
        mine = paginate(rng, pk, lay["serial"], maxsegs=rng.choice([2, 17, 255]))
        return b"".join(render_page(p) for p in mine), kind, None
    if kind == "empty-page":
        ps = [dict(p) for p in pages]
        k = rng.randrange(0, len(ps) + 1)
        ser = rng.choice([lay["serial"], 12345])
        ps.insert(k, dict(serial=ser, seq=rng.choice([0, 1, 7]), pos=0, flags=0, segs=[], body=b""))
        return b"".join(render_page(p) for p in ps), kind, None
    if kind == "bad-version":
        ps = [dict(p) for p in pages]
        ps[rng.randrange(len(ps))]["version"] = rng.choice([1, 255])
        return b"".join(render_page(p) for p in ps), kind, None
    if kind == "bad-capture":
        k = rng.randrange(len(pages))
        raw = [render_page(p) for p in pages]
        raw[k] = rng.choice([b"oggS", b"OggX", b"\0\0\0\0"]) + raw[k][4:]
        return b"".join(raw), kind, None
    if kind == "bad-crc":
        # mutagen does not test checksums: everything works as if they were right
        k = rng.randrange(len(pages))
        raw = [render_page(p) for p in pages]
        raw[k] = render_page(pages[k], crc=rng.choice([0, 0xFFFFFFFF, 12345]))
        return b"".join(raw), kind, None
    if kind in ("same-codec-twice", "chained"):
        s2 = (lay["serial"] + 1 + rng.randrange(1000)) % (1 << 32)
        st2 = gen_codec_stream(rng, codec, s2)
        if kind == "chained":
            order = rng.choice([pages + st2["pages"], st2["pages"] + pages])
        elif other_first or (other_first is None and rng.random() < 0.4):
            # A-identification, B-identification, all of B (its comment pages first), then the rest of A
            mine = [p for p in pages if p["serial"] == lay["serial"]]
            order = [mine[0], st2["pages"][0]] + st2["pages"][1:] + mine[1:] + [p for p in pages if p["serial"] != lay["serial"]]
        else:
            order = interleave(rng, [[p for p in pages if p["serial"] == lay["serial"]], st2["pages"]] +
                               [[p for p in pages if p["serial"] != lay["serial"]]], bos_first=rng.random() < 0.7)
        return b"".join(render_page(p) for p in order), kind, dict(twice=True, codec=codec, pages=order, serials=[lay["serial"], s2],
                                                                   streams={lay["serial"]: lay["stream"], s2: st2})
    if kind == "id-not-first":
        ps = [dict(p) for p in pages]
        for p in ps:
            if p["serial"] == lay["serial"]:
                p["flags"] &= ~2
        return b"".join(render_page(p) for p in ps), kind, None
    if kind == "short-id":
        st = lay["stream"]
        pk = [st["packets"][0][:rng.choice([8, 10, 18, 27, 30])]] + st["packets"][1:]
        mine = paginate(rng, pk, lay["serial"], maxsegs=rng.choice([17, 255]))
        return b"".join(render_page(p) for p in mine), kind, None
    if kind == "tiny":
        return data[:rng.choice([0, 1, 4, 26, 27, 28, 57, 58])], kind, None
    if kind == "comment-first-flag":
        ps = [dict(p) for p in pages]
        mine = [p for p in ps if p["serial"] == lay["serial"]]
        for p in mine[1:rng.choice([2, 3])]:
            p["flags"] |= rng.choice([2, 4, 6])
        return b"".join(render_page(p) for p in ps), kind, None
    if kind == "foreign-junk-tail":
        # a page of another stream that is cut short, at the very end
        other = dict(serial=999, seq=0, pos=0, flags=2, segs=[40], body=rbytes(rng, 40))
        return data + render_page(other)[:rng.choice([27, 28, 40])], kind, dict(lay, damaged=kind)
    if kind == "flags-hi":
        ps = [dict(p) for p in pages]
        for p in ps:
            if rng.random() < 0.5:
                p["flags"] |= rng.choice([8, 0x80, 0xF8])
        return b"".join(render_page(p) for p in ps), kind, None
    raise AssertionError(kind)


PADS = ["default", "default", "keep", "0", "1", "777", "20000", "-5", "255", "100000"]


def classify(exc):
    from mutagen import MutagenError
    if isinstance(exc, MutagenError):
        return "err mutagen"
    return "err " + {"ValueError": "value", "IndexError": "index", "error": "struct", "KeyError": "key", "EOFError": "eof",
                     "AssertionError": "assertion", "OverflowError": "overflow", "TypeError": "type", "UnboundLocalError": "unbound",
                     "MemoryError": "memory"}.get(type(exc).__name__, type(exc).__name__)


def classify_raw(exc):
    """for the pieces called directly (not through save/delete/load, which convert ogg.error, IOError and EOFError)"""
    from mutagen import MutagenError
    if isinstance(exc, (MutagenError, EOFError, IOError)):
        return "err mutagen"
    return classify(exc)


def ask_model(ctx, lines):
    cmd = os.environ.get("VERIF_OGGINJECT_DRIVER")
    if cmd:
        out = []
        step = 100
        for i in range(0, len(lines), step):
            p = subprocess.run(shlex.split(cmd), input=("\n".join(lines[i:i + step]) + "\n").encode(), stdout=subprocess.PIPE,
                               stderr=subprocess.PIPE, timeout=7200)
            got = p.stdout.decode().split("\n")
            if got and got[-1] == "":
                got.pop()
            if p.returncode != 0 or len(got) != len(lines[i:i + step]):
                raise RuntimeError("VERIF_OGGINJECT_DRIVER protocol error: rc=%s, %d answers for %d requests; stderr=%s" % (
                    p.returncode, len(got), len(lines[i:i + step]), p.stderr.decode()[-400:]))
            out.extend(got)
        return out
    if not ctx.model_ok():
        return None
    out = []
    for i in range(0, len(lines), 200):
        out.extend(ctx.driver.ask(lines[i:i + 200]))
    return out


def classes(codec):
    import importlib
    c = CODECS[codec]
    m = importlib.import_module("mutagen." + c["mod"])
    return getattr(m, c["cls"]), getattr(m, c["tags"])


def donor(codec):
    """a tag object of the codec loaded from a sample file: used to save onto files that do not load"""
    cls, _ = classes(codec)
    return cls(io.BytesIO(load_sample(CODECS[codec]["samples"][0])))


def desc_page(p):
    return "c%dk%df%dl%ds%dr%dp%dn%s" % (p.complete, p.continued, p.first, p.last, p.sequence, p.serial, p.position,
                                        ".".join(str(len(x)) for x in p.packets))


def real_walk(tags, data, cb):
    """what `_inject` hands to OggPage.replace (nothing is written)"""
    from mutagen.ogg import OggPage
    seen = {}
    orig = OggPage.__dict__["replace"]

    def fake(cls, fileobj, old_pages, new_pages):
        seen["old"] = ";".join("%d@%s" % (p.offset, desc_page(p)) for p in old_pages)
        seen["new"] = ";".join(desc_page(p) for p in new_pages) or "-"
    OggPage.replace = classmethod(fake)
    try:
        tags._inject(io.BytesIO(data), cb)
    finally:
        OggPage.replace = orig
    return "ok old=%s new=%s" % (seen["old"], seen["new"])


def real_read(codec, data, serial, pos):
    _, tcls = classes(codec)
    f = io.BytesIO(data)
    f.seek(pos)
    t = tcls(f, types.SimpleNamespace(serial=serial))
    kv = ",".join("%s:%s" % (hx(k.encode("ascii")), hx(v.encode("utf-8"))) for k, v in t) or "-"
    return "ok padding=%d paddata=%s vendor=%s kv=%s" % (getattr(t, "_padding", 0), hx(getattr(t, "_pad_data", b"")),
                                                       hx(t.vendor.encode("utf-8")), kv)


# ---------------------------------------------------------------------------------------------
# the statements on the real output

def page_key(p):
    return (p["serial"], p["pos"], p["flags"], tuple(p["segs"]), p["body"])


def check_edit(ctx, codec, lay, data, out, want_packet, key, case, inplace=False):
    """C02 + C03 on the output of a save or delete over a well-formed layout.  `want_packet` is the comment packet the
    stream must now hold (None: not checked here)."""
    S = lay["serial"]
    outp = strict_parse(out)
    if outp is None:
        ctx.violation(key + "malformed", "the file written is not a sequence of Ogg pages with correct checksums", case)
        return None
    inp = lay["pages"]
    if [page_key(p) + (p["seq"],) for p in outp if p["serial"] != S] != [page_key(p) + (p["seq"],) for p in inp if p["serial"] != S]:
        ctx.violation(key + "foreign-page-changed", "pages of other logical streams are not byte-identical and in order", case)
        return None
    mine_in = [p for p in inp if p["serial"] == S]
    mine = [p for p in outp if p["serial"] == S]
    if [p["seq"] for p in mine] != list(range(len(mine))):
        ctx.violation(key + "sequence-gap", "page sequence numbers of the edited stream are not 0..n-1: %r" % ([p["seq"] for p in mine][:40],), case)
    for i, p in enumerate(mine):
        should = i > 0 and mine[i - 1]["segs"] and mine[i - 1]["segs"][-1] == 255
        if bool(p["flags"] & 1) != bool(should):
            ctx.violation(key + "continuation-flags", "page %d of the edited stream: continued flag %d, predecessor %s" % (
                i, p["flags"] & 1, "open" if should else "closed"), case)
            break
    if [i for i, p in enumerate(mine) if p["flags"] & 2] != [0] or [i for i, p in enumerate(mine) if p["flags"] & 4] != [len(mine) - 1]:
        ctx.violation(key + "first-last-flags", "first/last flags are not on exactly the first/last page of the edited stream", case)
    pk_in, open_in, where_in = stream_packets(mine_in)
    pk_out, open_out, where_out = stream_packets(mine)
    if open_out is not None:
        ctx.violation(key + "last-packet-open", "the edited stream ends inside a packet", case)
    if len(pk_out) != len(pk_in) or pk_out[:1] != pk_in[:1] or pk_out[2:] != pk_in[2:]:
        ctx.violation(key + "foreign-packet-changed", "packets of the edited stream other than the comment packet differ (%d -> %d packets)" % (
            len(pk_in), len(pk_out)), case)
        return None
    if want_packet is not None and pk_out[1] != want_packet:
        ctx.violation(key + "comment-packet", "the comment packet is not what was saved: %d bytes, expected %d" % (len(pk_out[1]), len(want_packet)), case)
    # pages behind the comment packet's pages keep position, flags, lacing and data (only their number may change)
    last_in = max(i for i, w in enumerate(where_in) if 1 in w)
    last_out = max(i for i, w in enumerate(where_out) if 1 in w)
    tail = mine_in[last_in + 1:]
    if [page_key(p) for p in mine[len(mine) - len(tail):]] != [page_key(p) for p in tail]:
        ctx.violation(key + "following-page-changed", "pages of the edited stream behind the comment pages changed in more than their number", case)
    # a page that finishes no packet has granule position -1 (RFC 3533 §6)
    for i, p in enumerate(mine):
        fin = any(s < 255 for s in p["segs"])
        if not fin and p["segs"] and p["pos"] != -1:
            ctx.violation(key + "granule-position", "page %d of the edited stream finishes no packet but has granule position %d" % (i, p["pos"]), case)
            break
    if inplace:
        if len(out) != len(data):
            ctx.violation(key + "keep-moves-file", "answering with the offered padding changed the file size %d -> %d" % (len(data), len(out)), case)
        else:
            first_in = min(i for i, w in enumerate(where_in) if 1 in w)
            touched = {id(p) for p in mine_in[first_in:last_in + 1]}
            pos = 0
            for p in inp:
                raw = render_page(p)
                if id(p) not in touched and out[pos:pos + len(raw)] != raw:
                    ctx.violation(key + "keep-moves-page", "answering with the offered padding changed a page outside the comment pages", case)
                    break
                pos += len(raw)
    return pk_out


def check_twice(ctx, codec, lay, data, out, loaded_serial, case, op="save"):
    """two streams of the codec in one file: the tags that were loaded belong to `loaded_serial`; that stream — and no
    other — must carry the new comment"""
    outp = strict_parse(out)
    key = "ogginject:%s:%s:" % (codec, op)
    if outp is None:
        ctx.violation(key + "malformed", "the file written is not a sequence of Ogg pages with correct checksums", case)
        return
    for s in lay["serials"]:
        if s == loaded_serial:
            continue
        a = [page_key(p) for p in lay["pages"] if p["serial"] == s]
        b = [page_key(p) for p in outp if p["serial"] == s]
        if a != b:
            ctx.violation(key + "wrong-stream-edited", "the tags were read from the stream with serial %d; saving changed the stream with serial %d" % (
                loaded_serial, s), case)
            return


def run(ctx, only=None):
    """model tie + the container statements on the real output; returns the number of cases"""
    from mutagen.ogg import OggPage
    rng = ctx.rng
    n = int(os.environ.get("VERIF_OGGINJECT_CASES", "0")) or ctx.budget(25, 450)
    texts = ["x", "", "Ünï ✓", "a" * 300, "b" * 5000, "c" * 70000]
    reqs = []
    ncases = 0
    for codec in (only or list(CODECS)):
        c = CODECS[codec]
        cls, tcls = classes(codec)
        # a stratified pass first: every kind of the generator once per operation (two multiplexed streams of the codec in
        # both orders of their comment pages), then the random draws
        forced = []
        for kd in sorted(set(FILE_KINDS)):
            for fop in (("save", "delete") if kd in ("plain", "same-codec-twice", "chained", "junk-behind", "two-comments") else ("save",)):
                if kd == "same-codec-twice":
                    forced += [(kd, True, fop), (kd, False, fop)]
                else:
                    forced.append((kd, None, fop))
        for i in range(len(forced) + n):
            if i < len(forced):
                data, kind, lay = gen_file(rng, codec, kind=forced[i][0], other_first=forced[i][1])
                op = forced[i][2]
            else:
                data, kind, lay = gen_file(rng, codec)
                op = rng.choice(["save", "save", "save", "delete"])
            desc = dict(fmt=codec, kind=kind, op=op, data=hx(data) if len(data) < 1500 else "len=%d" % len(data))
            # the tag object: loaded from the file itself when that works, else from a sample of the codec
            kl, t = timed(lambda: cls(io.BytesIO(data)), 20)
            own = kl == "ok"
            if kl == "hang":
                ctx.violation("ogginject:%s:load:hang" % codec, "did not finish", desc)
                continue
            if not own:
                t = donor(codec)
            desc["tags_from"] = "file" if own else "sample"
            loaded_serial = t.info.serial
            paddata = getattr(t.tags, "_pad_data", b"")
            f = io.BytesIO(data)
            offered = []
            pad = rng.choice(PADS)

            def cb(info, pad=pad):
                offered.append((info.padding, info.size))
                return max(info.padding, 0) if pad == "keep" else int(pad)
            if op == "save":
                how = rng.choice(["keep", "set", "set", "clear"])
                if how == "clear":
                    t.tags.clear()
                elif how == "set":
                    for _ in range(rng.randrange(1, 4)):
                        t.tags[rng.choice(["title", "artist", "x"])] = [rng.choice(texts) for _ in range(rng.choice([1, 1, 2]))]
                vc = t.tags.write(framing=c["framing"])
                k, r = timed(lambda: t.save(f, padding=None if pad == "default" else cb), 30)
                line = "ogginject fmt=%s op=save data=%s vc=%s paddata=%s pad=%s" % (codec, hx(data), hx(vc), hx(paddata), pad)
                desc.update(pad=pad, vc_len=len(vc), how=how)
            else:
                vendor = t.tags.vendor.encode("utf-8")
                vc = vcomment(vendor, [], c["framing"])
                k, r = timed(lambda: t.delete(f), 30)
                line = "ogginject fmt=%s op=delete data=%s vendor=%s paddata=%s" % (codec, hx(data), hx(vendor), hx(paddata))
            if k == "hang":
                ctx.violation("ogginject:%s:%s:hang" % (codec, op), "did not finish", desc)
                continue
            out = f.getvalue()
            if k == "ok":
                impl = "ok v=%s" % hx(out)
            else:
                impl = classify(r) + (" same=1" if out == data else " v=%s" % hx(out))
            ctx.case(key=("ogginject", codec, op, kind, i), nontrivial=(k == "ok" and out != data), modelled=True,
                     sample=desc if i in (2, 31) else None)
            ctx.hist["ogginject:%s:%s:%s" % (codec, op, "ok" if k == "ok" else impl.split(" ")[1])] += 1
            ctx.hist["ogginject:kind:" + kind.split(":")[0]] += 1
            reqs.append((line, impl, desc))
            ncases += 1
            # the internals: which pages go into OggPage.replace; the comment constructors
            if rng.random() < 0.35:
                t2 = t
                wpad = rng.choice(PADS)
                kw, rw = timed(lambda: real_walk(t2.tags, data, None if wpad == "default" else
                                                  (lambda info: max(info.padding, 0) if wpad == "keep" else int(wpad))), 30)
                if kw != "hang":
                    vc2 = t.tags.write(framing=c["framing"])
                    reqs.append(("ogginject fmt=%s op=walk data=%s vc=%s paddata=%s pad=%s" % (codec, hx(data), hx(vc2), hx(paddata), wpad),
                                 rw if kw == "ok" else classify_raw(rw), dict(desc, op="walk", pad=wpad)))
            if rng.random() < 0.35:
                which = out if (k == "ok" and rng.random() < 0.5) else data
                pl = lenient_pages(which)
                if pl:
                    pg = rng.choice(pl[:4])
                    rpos = rng.choice([pg["offset"], pg["offset"] + len(pg["raw"]), 0])
                    rser = rng.choice([loaded_serial, pg["serial"]])
                    kr, rr = timed(lambda: real_read(codec, which, rser, rpos), 30)
                    if kr != "hang":
                        reqs.append(("ogginject fmt=%s op=read data=%s serial=%d pos=%d" % (codec, hx(which), rser, rpos),
                                     rr if kr == "ok" else classify_raw(rr), dict(desc, op="read", serial=rser, pos=rpos)))
            if k == "ok" and (kind == "plain" or kind.startswith("sample")):
                # C01: the reload of what was just written — the real comment constructor where the real info constructor
                # stops — against the model's reader (vendor string, every comment, padding)
                def reload(out=out):
                    f2 = io.BytesIO(out)
                    info = cls._Info(f2)
                    return info.serial, f2.tell()
                kr0, sp0 = timed(reload, 20)
                if kr0 == "ok":
                    kr, rr = timed(lambda: real_read(codec, out, sp0[0], sp0[1]), 30)
                    if kr != "hang":
                        reqs.append(("ogginject fmt=%s op=read data=%s serial=%d pos=%d" % (codec, hx(out), sp0[0], sp0[1]),
                                     rr if kr == "ok" else classify_raw(rr), dict(desc, op="read", serial=sp0[0], pos=sp0[1], of="reload")))
            if rng.random() < 0.15:
                which = out if k == "ok" else data
                sp = strict_parse(which)
                reqs.append(("ogginject op=readall data=%s" % hx(which), "ok wellformed=0" if sp is None else "ok wellformed=1 n=%d" % len(sp),
                             dict(desc, op="readall")))
            # ---- the statements on the real output
            if lay is None:
                continue
            key = "ogginject:%s:%s:" % (codec, op)
            if lay.get("twice"):
                if k == "ok" and own:
                    check_twice(ctx, codec, lay, data, out, loaded_serial, dict(desc, loaded_serial=loaded_serial), op)
                continue
            if lay.get("damaged"):
                # bytes behind the last page: whatever happens, a call that raises must not have changed the file
                if k != "ok" and out != data:
                    ctx.violation(key + "raises-after-writing", "%s raised (%s) after it had changed the file (input: %s)" % (
                        op, classify(r), lay["damaged"]), desc)
                continue
            case = dict(desc, serial=lay["serial"], nstreams=lay["nstreams"])
            if not own:
                ctx.violation("ogginject:%s:load:raises" % codec, "a well-formed file does not load: %s" % classify(t if kl == "exc" else None), case)
                continue
            if k != "ok":
                ctx.violation(key + "raises", "%s on a well-formed file" % classify(r), case)
                continue
            st = lay["stream"]
            old_packet = st["packets"][1]
            if op == "save":
                if codec == "flac":
                    want = old_packet[:1] + struct.pack(">I", len(vc))[1:] + vc
                    got_pad = 0
                elif st["pad_data"]:
                    want = c["prefix"] + vc + st["pad_data"]
                    if offered:
                        ctx.violation(key + "callback-with-preserved-data", "the padding callback was called although data behind the comment is preserved", case)
                else:
                    want = None
                keep_inplace = (pad == "keep" and offered and offered[0][0] >= 0 and not st["pad_data"] and codec != "flac")
                pk = check_edit(ctx, codec, lay, data, out, want, key, case, inplace=keep_inplace)
                if pk is None:
                    continue
                if want is None:
                    body = c["prefix"] + vc
                    if pk[1][:len(body)] != body or pk[1][len(body):].strip(b"\0"):
                        ctx.violation(key + "comment-packet", "the comment packet is not prefix, comment, zero padding", case)
                        continue
                    got_pad = len(pk[1]) - len(body)
                    exp_offer = (len(old_packet) - len(body), len(data) - len(old_packet))
                    if pad != "default":
                        if len(offered) != 1:
                            ctx.violation(key + "callback-count", "the padding callback was called %d times" % len(offered), case)
                        elif offered[0] != exp_offer:
                            ctx.violation(key + "callback-offer", "the padding callback was offered (padding=%d, size=%d), expected (%d, %d)" % (
                                offered[0] + exp_offer), case)
                        wantpad = max(exp_offer[0], 0) if pad == "keep" else int(pad)
                        if wantpad >= 0 and got_pad != wantpad:
                            ctx.violation(key + "padding-not-obeyed", "callback answered %d, the packet has %d bytes of padding" % (wantpad, got_pad), case)
                    else:
                        if 0 <= exp_offer[0] <= 1024 and got_pad != exp_offer[0]:
                            ctx.violation(key + "default-does-not-reuse", "default padding: %d bytes were available (<= 1 KiB), the packet has %d" % (
                                exp_offer[0], got_pad), case)
                        # C07: load the result, save it unchanged with the default policy: byte-identical
                        k2, t2 = timed(lambda: cls(io.BytesIO(out)), 20)
                        if k2 != "ok":
                            ctx.violation(key + "result-does-not-load", "the saved file does not load", case)
                        else:
                            f2 = io.BytesIO(out)
                            k3, r3 = timed(lambda: t2.save(f2), 30)
                            if k3 != "ok" or f2.getvalue() != out:
                                ctx.violation(key + "second-save-differs", "saving the unchanged tags again changed the file (or raised)", case)
                # the comment constructor reads back what was saved
                k4, t4 = timed(lambda: cls(io.BytesIO(out)), 20)
                if k4 != "ok":
                    ctx.violation(key + "result-does-not-load", "the saved file does not load", case)
                elif list(t4.tags) != list(t.tags) or t4.tags.vendor != t.tags.vendor:
                    ctx.violation(key + "tags-differ", "the saved file loads with other tags than were saved", case)
            else:
                want = (old_packet[:1] + struct.pack(">I", len(vc))[1:] + vc) if codec == "flac" else c["prefix"] + vc + st["pad_data"]
                pk = check_edit(ctx, codec, lay, data, out, want, key, case)
                if pk is None:
                    continue
                if len(t.tags) != 0:
                    ctx.violation(key + "memory-not-cleared", "the in-memory tags are not empty after delete", case)
                # deleting again changes nothing; new tags can be saved afterwards
                f2 = io.BytesIO(out)
                k2, t2 = timed(lambda: cls(io.BytesIO(out)), 20)
                if k2 != "ok":
                    ctx.violation(key + "result-does-not-load", "the file does not load after delete", case)
                    continue
                if len(t2.tags) != 0:
                    ctx.violation(key + "tags-left", "tags are left after delete", case)
                k3, r3 = timed(lambda: t2.delete(f2), 30)
                if k3 != "ok" or f2.getvalue() != out:
                    ctx.violation(key + "not-idempotent", "a second delete changed the file or raised", case)
                t2.tags["title"] = ["again"]
                vc3 = t2.tags.write(framing=c["framing"])
                k5, r5 = timed(lambda: t2.save(f2, padding=lambda info: 3), 30)
                if k5 != "ok":
                    ctx.violation(key + "retag-raises", "saving new tags after delete raised", case)
                else:
                    lay2 = dict(lay, pages=strict_parse(out))
                    if codec == "flac":
                        want2 = old_packet[:1] + struct.pack(">I", len(vc3))[1:] + vc3
                    else:
                        want2 = c["prefix"] + vc3 + (st["pad_data"] or b"\0" * 3)
                    check_edit(ctx, codec, lay2, out, f2.getvalue(), want2, key + "retag:", dict(case, step="retag"))
    answers = ask_model(ctx, [r[0] for r in reqs]) if reqs else None
    if answers is None:
        ctx.notes.append("ogginject_tie: model driver unavailable, tie skipped")
        return ncases
    if any(a == "bad-op" for a in answers):
        ctx.notes.append("ogginject_tie: the driver does not know the `ogginject` command yet (not hooked into Driver/Main.lean); tie skipped")
        return ncases
    for (line, impl, desc), ans in zip(reqs, answers):
        if ans.startswith("err notimplemented"):
            ctx.hist["ogginject:outside-model"] += 1
            continue
        ctx.traces_validated += 1
        if desc["op"] == "read" and ans.startswith("ok "):
            ans = ans.split(" data=")[0]
            # the tags are compared when the model's bytes are valid UTF-8 (mutagen decodes with errors='replace':
            # other bytes do not come back as they were) and all keys are ASCII (else outside the model)
            mv = dict(x.split("=", 1) for x in ans.split(" ")[1:] if "=" in x)
            comparable = mv.get("vendor") != "outside"
            if comparable:
                try:
                    for hexs in [mv["vendor"]] + [y for x in (mv["kv"].split(",") if mv["kv"] != "-" else []) for y in x.split(":")]:
                        (b"" if hexs == "-" else bytes.fromhex(hexs)).decode("utf-8")
                except Exception:
                    comparable = False
            if not comparable:
                ctx.hist["ogginject:read:tags-not-compared"] += 1
                ans = ans.split(" vendor=")[0]
                impl = impl.split(" vendor=")[0]
            else:
                ctx.hist["ogginject:read:tags-compared"] += 1
        if desc["op"] == "readall" and ans.startswith("ok wellformed=1"):
            ans = "ok wellformed=1 n=%d" % (len(ans.split("pages=")[1].split(";")) if "pages=-" not in ans else 0)
        if ans != impl:
            ctx.disagree("ogg comment injection", desc, model=ans[:300], impl=impl[:300])
    return ncases


# ---------------------------------------------------------------------------------------------
# C15, second sentence: the API functions by themselves

def page_spec(p):
    """a real OggPage as the driver's op=replace wants it"""
    pk = ".".join(hx(x) for x in p.packets) if p.packets else "_"
    return "%d:%d:%d:%d:%d:%d:%d:%s" % (p.complete, p.continued, p.first, p.last, p.sequence, p.serial, p.position, pk)


def gen_api_file(rng):
    """a multiplexed file of 1-3 streams of random packets -> (bytes, pages in file order)"""
    streams, used = [], set()
    for _ in range(rng.choice([1, 2, 2, 3])):
        s = rng.choice([0, 1, 7, 0xFFFFFFFF, rng.randrange(1 << 32)])
        if s in used:
            continue
        used.add(s)
        packets = [rbytes(rng, rng.choice([0, 1, 30, 254, 255, 256, 510, 600, 1500, 5000])) for _ in range(rng.choice([1, 3, 6, 12]))]
        streams.append(paginate(rng, packets, s, first_alone=rng.random() < 0.5, maxsegs=rng.choice([1, 2, 3, 8, 255])))
    pages = interleave(rng, streams, bos_first=rng.random() < 0.6) if len(streams) > 1 else streams[0]
    return b"".join(render_page(p) for p in pages), pages


def read_real_pages(data):
    from mutagen.ogg import OggPage
    f = io.BytesIO(data)
    out = []
    while True:
        try:
            out.append(OggPage(f))
        except Exception:
            break
    return out


def gen_new_pages(rng, old_pages):
    """new pages for OggPage.replace, numbered and flagged by `the caller` -> (pages, how)"""
    from mutagen.ogg import OggPage
    how = rng.choice(["from_packets", "from_packets", "from_packets-small-pages", "preserve", "handmade", "handmade", "none",
                      "same-bytes-other-count"])
    try:
        packets = OggPage.to_packets(old_pages) if old_pages else []
    except Exception:
        packets = [b"x"]
    if how == "same-bytes-other-count":
        # another number of pages that render to exactly as many bytes as the old run (nothing behind them moves, yet
        # the later pages of the stream have to be renumbered)
        total = sum(len(p.write()) for p in old_pages) if old_pages else 0
        m = len(old_pages) - 1 if len(old_pages) >= 2 else 2

        def packet_len_for(size):
            for L in range(max(0, size - 28 - size // 255 - 2), max(0, size - 27)):
                if 28 + L // 255 + L == size and (L % 255 != 0 or L == 0):
                    return L
            return None
        built = None
        for first in (10, 11, 12, 40):
            rest = total - (m - 1) * (28 + first)
            L = packet_len_for(rest) if rest > 28 else None
            if old_pages and L is not None:
                built = [first] * (m - 1) + [L]
                break
        if built is None:
            how = "from_packets"
        else:
            pages = []
            for L in built:
                p = OggPage()
                p.packets = [rbytes(rng, L)]
                p.complete = True
                p.serial = old_pages[0].serial
                p.sequence = rng.choice([0, old_pages[0].sequence])
                pages.append(p)
            assert sum(len(p.write()) for p in pages) == total
            return pages, how
    if how == "none":
        return [], how
    if how == "preserve" and old_pages:
        pk = [rbytes(rng, len(x)) for x in packets]
        try:
            return OggPage._from_packets_try_preserve(pk, old_pages), how
        except Exception:
            how = "from_packets"
    if how.startswith("from_packets"):
        pk = list(packets) or [b""]
        edit = rng.choice(["grow", "shrink", "same", "more-packets", "fewer-packets", "huge"])
        if edit == "grow":
            pk[0] = pk[0] + rbytes(rng, rng.choice([1, 300, 5000, 9000]))
        elif edit == "shrink":
            pk[0] = pk[0][:rng.choice([0, 1, 10])]
        elif edit == "more-packets":
            pk = pk + [rbytes(rng, rng.choice([0, 5, 700])) for _ in range(rng.choice([1, 3]))]
        elif edit == "fewer-packets":
            pk = pk[:1]
        elif edit == "huge":
            pk[-1] = pk[-1] + rbytes(rng, 20000)
        kw = {}
        if how.endswith("small-pages"):
            kw = dict(default_size=rng.choice([255, 300, 512, 1024]), wiggle_room=rng.choice([0, 100, 2048]))
        return OggPage.from_packets(pk, sequence=rng.choice([0, 0, 1000, old_pages[0].sequence if old_pages else 5]), **kw), how + ":" + edit
    pages = []
    for _ in range(rng.choice([1, 1, 2, 3, 4])):
        p = OggPage()
        p.packets = [rbytes(rng, rng.choice([0, 1, 100, 255, 510, 300])) for _ in range(rng.choice([0, 1, 1, 2, 3]))]
        p.complete = rng.random() < 0.7
        if not p.packets:
            p.complete = True      # OggPage.size of an incomplete page without packets raises UnboundLocalError: outside the model
        p.continued = rng.random() < 0.3
        p.first = rng.random() < 0.2
        p.last = rng.random() < 0.2
        p.sequence = rng.choice([0, 5, 77, 0xFFFFFFFF])
        p.serial = rng.choice([0, 1234, 0xFFFFFFFF])
        p.position = rng.choice([0, -1, 12345, -(1 << 63), (1 << 63) - 1])
        pages.append(p)
    return pages, "handmade"


def check_replace(ctx, data, pages, idx, old_real, new_real, how, out, case):
    """the second sentence of C15 on the real output, for a run that is contiguous in its stream and new pages that
    came from from_packets / _from_packets_try_preserve"""
    key = "oggapi:replace:"
    S = old_real[0].serial
    outp = strict_parse(out)
    if outp is None:
        ctx.violation(key + "malformed", "the file is no longer a sequence of Ogg pages with correct checksums", case)
        return
    if [p["raw"] for p in outp if p["serial"] != S] != [render_page(p) for p in pages if p["serial"] != S]:
        ctx.violation(key + "foreign-page-changed", "pages of other logical streams are not byte-identical and in order", case)
    mine_in = [p for p in pages if p["serial"] == S]
    mine = [p for p in outp if p["serial"] == S]
    if [p["seq"] for p in mine_in] == list(range(len(mine_in))) and [p["seq"] for p in mine] != list(range(len(mine))):
        ctx.violation(key + "sequence-gap", "the stream was numbered 0..n-1 and is not any more: %r" % ([p["seq"] for p in mine][:30],), case)
    if len(mine) != len(mine_in) - len(old_real) + len(new_real):
        ctx.violation(key + "page-count", "the stream has %d pages, expected %d - %d + %d" % (len(mine), len(mine_in), len(old_real), len(new_real)), case)
        return
    # first/last flags: outside the run untouched; inside: only what the ends of the old run had
    a = [i for i, p in enumerate(mine_in) if p is pages[idx[0]]][0]
    run_out = mine[a:a + len(new_real)]
    want_first = [bool(old_real[0].first)] + [False] * (len(new_real) - 1)
    want_last = [False] * (len(new_real) - 1) + [bool(old_real[-1].last)]
    if [bool(p["flags"] & 2) for p in run_out] != want_first or [bool(p["flags"] & 4) for p in run_out] != want_last:
        ctx.violation(key + "first-last-flags", "first/last flags of the new run are not those of the ends of the old run", case)
    outside_in = mine_in[:a] + mine_in[a + len(old_real):]
    outside_out = mine[:a] + mine[a + len(new_real):]
    if [(p["flags"], p["pos"], tuple(p["segs"]), p["body"]) for p in outside_in] != [(p["flags"], p["pos"], tuple(p["segs"]), p["body"]) for p in outside_out]:
        ctx.violation(key + "stream-page-changed", "a page of the stream outside the run changed in more than its number", case)
    # the run's packets: those of the new pages
    want = b"".join(b"".join(p.packets) for p in new_real)
    if b"".join(p["body"] for p in run_out) != want:
        ctx.violation(key + "run-data", "the new run does not hold the data of the new pages", case)


def run_c15(ctx):
    """OggPage._from_packets_try_preserve, OggPage.replace and OggPage.renumber themselves against the model
    (`ogginject op=preserve|replace|renumber`), byte for byte, on generated multiplexed page lists; and the second
    sentence of C15 on the real output.  Returns the number of cases."""
    from mutagen.ogg import OggPage
    rng = ctx.rng
    n = int(os.environ.get("VERIF_OGGAPI_CASES", "0")) or ctx.budget(150, 1500)
    reqs = []
    ncases = 0
    for i in range(n):
        what = rng.choice(["replace"] * 4 + ["preserve"] * 3 + ["renumber"] * 2)
        data, pages = gen_api_file(rng)
        damaged = None
        if rng.random() < 0.12:
            damaged = rng.choice(["junk-behind", "cut"])
            data = data + rbytes(rng, rng.choice([1, 30])) if damaged == "junk-behind" else data[:len(data) - rng.choice([1, 10, 30])]
        real = read_real_pages(data)
        if not real:
            continue
        S = rng.choice(real).serial
        mine = [k for k, p in enumerate(real) if p.serial == S]
        a = rng.randrange(len(mine))
        b = min(len(mine), a + rng.choice([1, 1, 2, 3, 4]))
        idx = mine[a:b]
        contiguous = True
        if rng.random() < 0.1 and len(idx) > 2:
            idx = idx[:1] + idx[2:]               # a run with a hole: replace does what it is told
            contiguous = False
        if rng.random() < 0.05:
            idx = []
        case = dict(op=what, damaged=damaged, data=hx(data) if len(data) < 1200 else "len=%d" % len(data), old=idx, serial=S)
        if what == "preserve":
            olds = [real[k] for k in idx]
            if rng.random() < 0.1 and len(real) > 1:
                olds = olds + [rng.choice(real)]          # maybe another serial, maybe a wrong number: to_packets refuses
            try:
                base = OggPage.to_packets(olds)
            except Exception:
                base = [b"abc"]
            kind = rng.choice(["same-sizes", "same-sizes", "swap-sizes", "other-count", "one-byte-moved", "empty", "grown"])
            pk = [rbytes(rng, len(x)) for x in base]
            if kind == "swap-sizes" and len(pk) > 1:
                pk[0], pk[-1] = pk[-1], pk[0]
            elif kind == "one-byte-moved" and len(pk) > 1 and len(pk[0]) > 0:
                pk[-1] = pk[-1] + pk[0][-1:]
                pk[0] = pk[0][:-1]                  # same count, same total, other sizes
            elif kind == "other-count":
                pk = pk + [b"q"]
            elif kind == "empty":
                pk = []
            elif kind == "grown":
                pk = [x + rbytes(rng, rng.choice([1, 4000])) for x in pk] or [b"z"]
            olddata = b"".join(p.write() for p in olds)
            k, r = timed(lambda: OggPage._from_packets_try_preserve(pk, olds), 20)
            if k == "hang":
                ctx.violation("oggapi:preserve:hang", "did not finish", case)
                continue
            if k == "ok":
                impl = "ok pages=%s v=%s" % (";".join(desc_page(p) for p in r) or "-", hx(b"".join(p.write() for p in r)))
                # oracle: the packets come back; same sizes => same page sizes
                got, open_, _ = stream_packets(lenient_pages(b"".join(p.write() for p in r)))
                first_cont = bool(r) and r[0].continued
                if not first_cont and (got + ([open_] if open_ is not None else [])) != pk and not (pk and pk[-1] == b"" and open_ is None and got == pk):
                    ctx.violation("oggapi:preserve:packets-lost", "reassembling the pages does not give the packets back (%s)" % kind, dict(case, kind=kind))
                if [len(x) for x in pk] == [len(x) for x in base] and [p.size for p in r] != [p.size for p in olds]:
                    ctx.violation("oggapi:preserve:layout-not-kept", "same packet sizes, but the page sizes differ", dict(case, kind=kind))
            else:
                impl = classify(r)
            line = "ogginject op=preserve data=%s pk=%s" % (hx(olddata), ",".join(hx(x) for x in pk) or "_")
            ctx.case(key=("oggapi", what, i), nontrivial=(k == "ok"), modelled=True, sample=dict(case, kind=kind) if i == 3 else None)
            ctx.hist["oggapi:preserve:%s:%s" % (kind, impl.split(" ")[0] + ("" if k == "ok" else ":" + impl.split(" ")[1]))] += 1
            reqs.append((line, impl, dict(case, kind=kind)))
            ncases += 1
            continue
        if what == "renumber":
            pos = rng.choice([0] + [p.offset for p in real])
            ser = rng.choice([S, S, 424242])
            start = rng.choice([0, 1, 7, 1000, 0xFFFFFFFF, 0xFFFFFFFE, 0xFFFFFFFF - len(mine)])
            f = io.BytesIO(data)
            f.seek(pos)
            k, r = timed(lambda: OggPage.renumber(f, ser, start), 20)
            if k == "hang":
                ctx.violation("oggapi:renumber:hang", "did not finish", case)
                continue
            out = f.getvalue()
            impl = ("ok v=%s" % hx(out)) if k == "ok" else classify(r) + (" same=1" if out == data else " v=%s" % hx(out))
            if k == "ok" and not damaged:
                outp = strict_parse(out)
                if outp is None or [p["raw"] for p in outp if p["serial"] != ser or p["offset"] < pos] != \
                        [render_page(p) for p, q in zip(pages, real) if p["serial"] != ser or q.offset < pos]:
                    ctx.violation("oggapi:renumber:other-page-changed", "renumber changed a page it should not touch", case)
                elif [p["seq"] for p in outp if p["serial"] == ser and p["offset"] >= pos] != \
                        list(range(start, start + sum(1 for q in real if q.serial == ser and q.offset >= pos))):
                    ctx.violation("oggapi:renumber:numbers", "the pages are not numbered start, start+1, ...", case)
            ctx.case(key=("oggapi", what, i), nontrivial=(k == "ok" and out != data), modelled=True)
            ctx.hist["oggapi:renumber:%s" % (impl.split(" v=")[0].split(" same")[0])] += 1
            reqs.append(("ogginject op=renumber data=%s serial=%d start=%d pos=%d" % (hx(data), ser, start, pos), impl,
                         dict(case, start=start, pos=pos, ser=ser)))
            ncases += 1
            continue
        # ---- replace
        olds = [real[k] for k in idx]
        new_real, how = gen_new_pages(rng, olds)
        spec = ";".join(page_spec(p) for p in new_real) or "_"
        nspecs = [(p.complete, len(p.packets)) for p in new_real]
        f = io.BytesIO(data)
        k, r = timed(lambda: OggPage.replace(f, olds, new_real), 30)
        if k == "hang":
            ctx.violation("oggapi:replace:hang", "did not finish", case)
            continue
        out = f.getvalue()
        impl = ("ok v=%s" % hx(out)) if k == "ok" else classify(r) + (" same=1" if out == data else " v=%s" % hx(out))
        rel = "none" if not new_real or not olds else ("fewer" if len(new_real) < len(olds) else "equal" if len(new_real) == len(olds) else "more")
        case.update(how=how, relation=rel)
        ctx.case(key=("oggapi", what, i), nontrivial=(k == "ok" and out != data), modelled=True, sample=case if i == 5 else None)
        ctx.hist["oggapi:replace:%s:%s" % (rel, impl.split(" v=")[0].split(" same")[0])] += 1
        ctx.hist["oggapi:replace:new-pages:" + how.split(":")[0]] += 1
        reqs.append(("ogginject op=replace data=%s old=%s new=%s" % (hx(data), ",".join(map(str, idx)) or "-", spec), impl, case))
        ncases += 1
        if k == "ok" and not damaged and contiguous and olds and new_real and not how.startswith("handmade"):
            check_replace(ctx, data, pages, idx, olds, new_real, how, out, case)
        elif k != "ok" and not damaged and olds and new_real and not how.startswith("handmade") and \
                max(p.sequence for p in real) + len(new_real) < (1 << 32) - 1:
            ctx.violation("oggapi:replace:raises", "%s on a well-formed file with pages from from_packets" % classify(r), case)
    answers = ask_model(ctx, [r[0] for r in reqs]) if reqs else None
    if answers is None:
        ctx.notes.append("ogginject_tie.run_c15: model driver unavailable, tie skipped")
        return ncases
    if any(a == "bad-op" for a in answers):
        ctx.notes.append("ogginject_tie.run_c15: the driver does not know op=preserve/replace/renumber yet; tie skipped")
        return ncases
    for (line, impl, desc), ans in zip(reqs, answers):
        ctx.traces_validated += 1
        if ans != impl:
            ctx.disagree("ogg page api (%s)" % desc["op"], desc, model=ans[:300], impl=impl[:300])
    return ncases


# ---------------------------------------------------------------------------------------------
# C19 / C06: the file-object programs (capacities, injected faults)

def _kinds(log):
    """op kinds with the sizes that matter: seeks only by kind (the real log has relative seeks as s-<n>)"""
    out = []
    for x in log:
        out.append(x[0] if x[0] in "se" else x)
    return out


def gen_fault_file(rng, codec):
    """a small well-formed multiplexed file whose comment packet sits on 1..3 pages"""
    serial = rng.choice([1, 7, 0x7FFFFFFF])
    c = CODECS[codec]
    vendor = rng.choice([b"", b"Xiph"])
    items = [(b"TITLE", b"v" * rng.choice([0, 3, 40]))][:rng.choice([0, 1])]
    vc = vcomment(vendor, items, c["framing"])
    padding = rng.choice([0, 0, 5, 60]) if codec != "flac" else 0
    packets = [id_packet(codec), comment_packet(codec, vc, padding)]
    pages_for_comment = rng.choice([1, 1, 2, 3])
    if pages_for_comment > 1:
        packets[1] = comment_packet(codec, vcomment(vendor, items + [(b"BIG", b"b" * (255 * (pages_for_comment - 1) + rng.choice([0, 30]) - len(vc) % 255))], c["framing"]), 0)
    if c["setup"]:
        packets.append(c["setup"] + rbytes(rng, rng.choice([5, 60])))
    packets += [rbytes(rng, rng.choice([1, 40, 300])) for _ in range(rng.choice([1, 2, 4]))]
    mine = paginate(rng, packets, serial, maxsegs=1 if pages_for_comment > 1 else rng.choice([3, 255]))
    streams = [mine]
    if rng.random() < 0.6:
        streams.append(gen_foreign_stream(rng, serial + 5))
    pages = interleave(rng, streams, bos_first=True) if len(streams) > 1 else mine
    return b"".join(render_page(p) for p in pages), pages, serial


def run_faults(ctx):
    """OggFileType.save / delete on capacity-limited and fault-injecting file objects (harness/fobj.py FaultFile)
    against the FileM programs of the model (`ogginject op=savem|deletem … cap= leak= fail=`): same outcome class, same
    bytes left; the model's log of calls is the tail of the real one (same operations in the same order); and the
    statements of C19 / C06 on the real outcome.  Returns the number of cases."""
    from fobj import FaultFile, TraceFile
    from mutagen import MutagenError
    rng = ctx.rng
    n = int(os.environ.get("VERIF_OGGFAULT_CASES", "0")) or ctx.budget(6, 40)
    reqs = []
    ncases = 0
    for codec in CODECS:
        c = CODECS[codec]
        cls, _ = classes(codec)
        for i in range(n):
            data, pages, serial = gen_fault_file(rng, codec)
            try:
                t0 = cls(io.BytesIO(data))
            except Exception:
                continue
            op = rng.choice(["save", "save", "delete"])
            grow = rng.choice([0, 1, 20, 300, 700, 5000])
            pad = rng.choice(["0", "0", "default", "7"])

            def prepare(data=data, op=op, grow=grow, cls=cls):
                t = cls(io.BytesIO(data))
                if op == "save":
                    t.tags["title"] = ["x" * grow]
                return t

            def act(t, f, op=op, pad=pad):
                if op == "save":
                    t.save(f, padding=None if pad == "default" else (lambda info: int(pad)))
                else:
                    t.delete(f)
            t = prepare()
            if op == "save":
                vc = t.tags.write(framing=c["framing"])
                base = "ogginject fmt=%s op=savem data=%s vc=%s paddata=- pad=%s" % (codec, hx(data), hx(vc), pad)
            else:
                base = "ogginject fmt=%s op=deletem data=%s vendor=%s paddata=-" % (codec, hx(data), hx(t.tags.vendor.encode("utf-8")))
            tf = TraceFile(data)
            k, r = timed(lambda: act(t, tf), 20)
            if k != "ok":
                continue
            ref = tf.getvalue()
            comment_pages = sum(1 for _ in [0])  # placeholder, computed below
            mine = [p for p in pages if p["serial"] == serial]
            _, _, where = stream_packets(mine)
            comment_pages = sum(1 for w in where if 1 in w)
            case = dict(fmt=codec, op=op, grow=grow, pad=pad, len=len(data), comment_pages=comment_pages,
                        data=hx(data) if len(data) < 900 else "len=%d" % len(data))
            reqs.append((base, ("clean", tf.log, ref), case))
            ncases += 1
            # ---- capacities: every value up to the peak for small growth, a sample beyond
            peak = max(0, len(ref) - len(data)) + sum(len(render_page(p)) for p in mine[:comment_pages + 1])
            caps = list(range(0, min(peak, 70) + 1)) + sorted(set(rng.randrange(0, peak + 1) for _ in range(6)))
            for rcap in caps:
                leak = rng.choice([0, 0, 5])
                ff = FaultFile(data, cap=len(data) + rcap, leak=leak)
                t = prepare()
                k, r = timed(lambda: act(t, ff), 20)
                after = ff.getvalue()
                if k == "hang":
                    ctx.violation("oggfault:%s:hang" % codec, "did not finish", case); continue
                cc = dict(case, remaining_capacity=rcap, leak=leak)
                ctx.case(key=("oggfault", codec, op, i, rcap, leak), nontrivial=(k != "ok"), modelled=True)
                ncases += 1
                if k == "ok":
                    if after != ref:
                        ctx.violation("oggfault:%s:returns-normally-on-full-device" % codec, "normal return with a file that is not the saved one", cc)
                    impl = "ok"
                else:
                    if not isinstance(r, MutagenError):
                        ctx.violation("oggfault:%s:enospc-raises-%s" % (codec, type(r).__name__), "ENOSPC surfaced as %s" % type(r).__name__, cc)
                    if comment_pages == 1 and after != data:
                        ctx.violation("oggfault:%s:file-modified-on-enospc" % codec, "comment on one page, yet the file changed although %s failed" % op, cc)
                    elif comment_pages > 1:
                        # the pages of the other streams and the pages behind the comment run: all still there, in order
                        pos = 0
                        for p in pages:
                            if p["serial"] == serial and p in mine[:comment_pages + 1]:
                                continue
                            raw = render_page(p)
                            at = after.find(raw, pos)
                            if at < 0 and p["serial"] != serial:
                                ctx.violation("oggfault:%s:payload-damaged-on-enospc" % codec, "a page of another stream is no longer in the file after the failed %s" % op, cc)
                                break
                            if at >= 0:
                                pos = at + len(raw)
                    impl = classify(r)
                ctx.hist["oggfault:cap:%s:%s" % ("1page" if comment_pages == 1 else "npages", impl if impl == "ok" else "err")] += 1
                reqs.append((base + " cap=%d leak=%d" % (len(data) + rcap, leak), ("run", impl, after), cc))
            # ---- injected faults: at the calls of the write phase (known once the model's log is there) and a few before
            reqs.append((base, ("faults", tf.log, (codec, op, i, prepare, act, data, ref)), case))
    answers = ask_model(ctx, [r[0] for r in reqs]) if reqs else None
    if answers is None:
        ctx.notes.append("ogginject_tie.run_faults: model driver unavailable, tie skipped")
        return ncases
    if any(a == "bad-op" for a in answers):
        ctx.notes.append("ogginject_tie.run_faults: the driver does not know op=savem/deletem yet; tie skipped")
        return ncases
    from vcheck import parse_fields
    more = []
    for (line, exp, case), ans in zip(reqs, answers):
        st, fld = parse_fields(ans)
        if exp[0] == "clean":
            ctx.traces_validated += 1
            mlog = [] if fld.get("log", "-") == "-" else fld["log"].split(",")
            if st != "ok" or fld.get("data") != hx(exp[2]):
                ctx.disagree("ogg save program (clean run)", case, model=ans[:200], impl="ok data=%s" % hx(exp[2])[:150])
            elif _kinds(exp[1])[len(exp[1]) - len(mlog):] != _kinds(mlog):
                ctx.disagree("ogg save program: order of file-object calls", case, model=",".join(mlog)[:300],
                             impl=",".join(exp[1][max(0, len(exp[1]) - len(mlog)):])[:300])
            else:
                # the program with its reads (op=savefull / deletefull): the WHOLE log of calls, behind verify_fileobj's
                # probes read(0), write(0)
                full = ask_model(ctx, [line.replace("op=savem", "op=savefull").replace("op=deletem", "op=deletefull")])[0]
                fst, ffld = parse_fields(full)
                if fst != "bad-op":
                    flog = [] if ffld.get("log", "-") == "-" else ffld["log"].split(",")
                    real = [x for x in exp[1]]
                    skip = len(real) - len(flog)
                    ctx.traces_validated += 1
                    if fst != "ok" or ffld.get("data") != hx(exp[2]) or skip < 0 or skip > 2 or _kinds(real[skip:]) != _kinds(flog):
                        ctx.disagree("ogg save program with its reads: outcome or calls", case, model=full[-300:], impl=",".join(real)[:300])
        elif exp[0] == "run":
            ctx.traces_validated += 1
            want = "ok" if exp[1] == "ok" else "err:" + exp[1].split(" ")[1]
            if st != want or fld.get("data") != hx(exp[2]):
                ctx.disagree("ogg save program (capacity)", case, model=ans[:200], impl="%s data=%s" % (want, hx(exp[2])[:150]))
        else:
            codec, op, i, prepare, act, data, ref = exp[2]
            mlog = [] if fld.get("log", "-") == "-" else fld["log"].split(",")
            W = len(exp[1]) - len(mlog)
            if W < 0:
                continue
            picks = sorted(set(list(range(min(len(mlog), 14))) + [rng.randrange(len(mlog)) for _ in range(6) if mlog]))
            for j in picks:
                ff = FaultFile(data, fail_at=W + j)
                t = prepare()
                k, r = timed(lambda: act(t, ff), 20)
                after = ff.getvalue()
                cc = dict(case, fault_at_model_call=j, fault_at_real_call=W + j)
                ctx.case(key=("oggfault", codec, op, i, "fail", j), nontrivial=True, modelled=True)
                ncases += 1
                if k == "ok":
                    impl = "ok"
                    if after != ref:
                        ctx.violation("oggfault:%s:ok-but-not-written" % codec, "normal return although a call failed and the file is not the saved one", cc)
                else:
                    impl = classify(r)
                    if not isinstance(r, MutagenError):
                        ctx.violation("oggfault:%s:io-fault-raises-%s" % (codec, type(r).__name__), "an injected IOError surfaced as %s" % type(r).__name__, cc)
                ctx.hist["oggfault:fail:%s" % (impl if impl == "ok" else "err")] += 1
                more.append((line + " fail=%d:io" % j, ("run", impl, after), cc))
            # faults before the first write: the file must be as it was
            for j in sorted(set(rng.randrange(max(1, W)) for _ in range(3))) if W > 0 else []:
                ff = FaultFile(data, fail_at=j)
                t = prepare()
                k, r = timed(lambda: act(t, ff), 20)
                if k != "ok" and (not isinstance(r, (MutagenError, ValueError)) or ff.getvalue() != data):
                    ctx.violation("oggfault:%s:read-phase-fault" % codec, "a fault before the first write changed the file or surfaced as %s" % type(r).__name__,
                                  dict(case, fault_at_real_call=j))
    if more:
        for (line, exp, case), ans in zip(more, ask_model(ctx, [m[0] for m in more])):
            st, fld = parse_fields(ans)
            ctx.traces_validated += 1
            want = "ok" if exp[1] == "ok" else "err:" + exp[1].split(" ")[1]
            if st != want or fld.get("data") != hx(exp[2]):
                ctx.disagree("ogg save program (injected fault)", case, model=ans[:200], impl="%s data=%s" % (want, hx(exp[2])[:150]))
    return ncases


# ---------------------------------------------------------------------------------------------
# load as a program over the file object (C06): OggX(fileobj) on FaultFile vs `ogginject op=loadm`

def _same_calls(real, model):
    """the same operations in the same order, the same sizes of reads (the real log has `r-1` for `read()`)"""
    if len(real) != len(model):
        return False
    for a, b in zip(real, model):
        if a[0] != b[0]:
            return False
        if a[0] == "r" and a != "r-1" and a != b:
            return False
        if a[0] == "s" and not a.startswith("s-") and a != b:
            return False
    return True


def gen_load_file(rng, codec):
    """small files for the load program: the well-formed multiplexed ones of `gen_fault_file`, the same cut short
    somewhere, with a foreign stream behind the last page of ours (forces the slow way of find_last), and a few
    with bytes damaged"""
    data, pages, serial = gen_fault_file(rng, codec)
    kind = rng.choice(["plain", "plain", "cut", "tail", "damaged"])
    if kind == "cut":
        data = data[:rng.randrange(0, len(data) + 1)]
    elif kind == "tail":
        extra = paginate(rng, [rbytes(rng, 9), rbytes(rng, 30)], serial + 11, maxsegs=255)
        data += b"".join(render_page(q) for q in extra)
    elif kind == "damaged" and data:
        b = bytearray(data)
        for _ in range(rng.choice([1, 2])):
            b[rng.randrange(len(b))] = rng.randrange(256)
        data = bytes(b)
    return data, kind


def run_load_faults(ctx):
    """`OggVorbis(fileobj)` … `OggFLAC(fileobj)` on fault-injecting file objects (harness/fobj.py FaultFile: an IOError at
    every call index, a short read with budgets 0 / 1 / n//2 at every read) against the FileM program `loadM` of
    Model/Container/OggInjectLoadM.lean (`ogginject op=loadm … fail=<i>:io | short=<i>:<k>`): same outcome class, the same
    file-object calls in the same order, what was loaded (serial, padding, preserved data, the page find_last returned);
    and the statements of C06 on the real outcome: only MutagenError (ValueError from verify_fileobj's probe is the recorded
    finding), file untouched, object not closed; a short read that silently changes what is loaded is recorded.
    Returns the number of cases."""
    from fobj import FaultFile, TraceFile
    from mutagen import MutagenError
    import mutagen.ogg
    from vcheck import parse_fields
    rng = ctx.rng
    n = int(os.environ.get("VERIF_OGGLOAD_CASES", "0")) or ctx.budget(4, 25)
    reqs = []
    ncases = 0
    found = {}
    orig_find_last = mutagen.ogg.OggPage.find_last

    def spy(fileobj, serial, finishing=False):
        r = orig_find_last(fileobj, serial, finishing)
        found["last"] = r
        return r

    def load(cls, f):
        found.clear()
        mutagen.ogg.OggPage.find_last = staticmethod(spy)
        try:
            k, r = timed(lambda: cls(f), 20)
        finally:
            mutagen.ogg.OggPage.find_last = staticmethod(orig_find_last)
        if k == "hang":
            return "hang", None
        if k != "ok":
            return classify(r), r
        last = found.get("last")
        desc = "serial=%d padding=%d paddata=%s last=%s" % (
            r.info.serial, getattr(r.tags, "_padding", 0), hx(getattr(r.tags, "_pad_data", b"")),
            "none" if last is None else "%d@%d" % (last.position, last.sequence))
        return "ok " + desc, r

    for codec in CODECS:
        cls, _ = classes(codec)
        for i in range(n):
            data, kind = gen_load_file(rng, codec)
            if len(data) > 6000:
                continue
            tf = TraceFile(data)
            ref, _ = load(cls, tf)
            if ref == "hang":
                ctx.violation("oggload:%s:hang" % codec, "the constructor did not finish", dict(fmt=codec, data=hx(data))); continue
            case = dict(fmt=codec, kind=kind, len=len(data), data=hx(data) if len(data) < 700 else "len=%d" % len(data))
            base = "ogginject fmt=%s op=loadm data=%s" % (codec, hx(data))
            reqs.append((base, ref, list(tf.log), data, dict(case, env="clean")))
            ncases += 1
            ctx.case(key=("oggload", codec, i, "clean"), nontrivial=True, modelled=True)
            # ---- an IOError at every call index (one beyond the last: no fault is hit)
            for j in range(len(tf.log) + 1):
                ff = FaultFile(data, fail_at=j)
                out, r = load(cls, ff)
                cc = dict(case, env="fail", fault_at_call=j)
                ncases += 1
                ctx.case(key=("oggload", codec, i, "fail", j), nontrivial=True, modelled=True)
                if out == "hang":
                    ctx.violation("oggload:%s:hang" % codec, "did not finish", cc); continue
                if not out.startswith("ok") and not isinstance(r, MutagenError):
                    key = "escape:ValueError:_util.py:verify_fileobj" if (j == 0 and isinstance(r, ValueError)) else \
                        "oggload:%s:io-fault-raises-%s" % (codec, type(r).__name__)
                    ctx.violation(key, "an injected IOError surfaced as %s" % type(r).__name__, cc)
                if ff.getvalue() != data:
                    ctx.violation("oggload:%s:file-modified" % codec, "load changed the file", cc)
                if ff.closed_called:
                    ctx.violation("oggload:%s:closed" % codec, "load closed the caller's file object", cc)
                ctx.hist["oggload:fail:%s" % out.split(" ")[0 if out.startswith("ok") else 1]] += 1
                reqs.append((base + " fail=%d:io" % j, out, list(ff.log), data, cc))
            # ---- a short read at every read, budgets 0, 1, n//2
            for j, op in enumerate(tf.log):
                if op[0] != "r":
                    continue
                want = int(op[1:])
                if want < 0:
                    want = len(data)
                for k in sorted(set([0, 1, want // 2])):
                    if k >= want and want >= 0 and op != "r-1":
                        continue
                    ff = FaultFile(data, short=(j, k))
                    out, r = load(cls, ff)
                    cc = dict(case, env="short", read_at_call=j, asked=op, budget=k)
                    ncases += 1
                    ctx.case(key=("oggload", codec, i, "short", j, k), nontrivial=True, modelled=True)
                    if out == "hang":
                        ctx.violation("oggload:%s:hang" % codec, "did not finish", cc); continue
                    if not out.startswith("ok") and not isinstance(r, MutagenError):
                        ctx.violation("oggload:%s:short-read-raises-%s" % (codec, type(r).__name__),
                                      "a short read surfaced as %s" % type(r).__name__, cc)
                    # C06 asks of a load under faults that it completes or raises MutagenError; that a short read in
                    # find_last's slow loop is taken for the end of the stream (so the call completes with an earlier page as the
                    # last one: a wrong length) is recorded as an observation, not a violation (Props/C06_OggInjectLoad.lean
                    # states it exactly: ogg_find_last_swallows)
                    if out.startswith("ok") and ref.startswith("ok") and out != ref:
                        ctx.hist["oggload:short-read-taken-for-end-of-stream:%s" % codec] += 1
                    if out.startswith("ok") and not ref.startswith("ok"):
                        ctx.hist["oggload:short-read-makes-load-succeed:%s" % codec] += 1
                    if ff.getvalue() != data:
                        ctx.violation("oggload:%s:file-modified" % codec, "load changed the file", cc)
                    if ff.closed_called:
                        ctx.violation("oggload:%s:closed" % codec, "load closed the caller's file object", cc)
                    ctx.hist["oggload:short:%s" % ("ok-same" if out == ref and out.startswith("ok") else "ok-different" if out.startswith("ok") else "err")] += 1
                    reqs.append((base + " short=%d:%d" % (j, k), out, list(ff.log), data, cc))
    answers = ask_model(ctx, [r[0] for r in reqs]) if reqs else None
    if answers is None:
        ctx.notes.append("ogginject_tie.run_load_faults: model driver unavailable, tie skipped")
        return ncases
    if any(a == "bad-op" for a in answers):
        ctx.notes.append("ogginject_tie.run_load_faults: the driver does not know op=loadm yet; tie skipped")
        return ncases
    # the pure load of the model on the same bytes: what the program returns without faults
    clean = [(r, a) for r, a in zip(reqs, answers) if r[4].get("env") == "clean"]
    pures = ask_model(ctx, [r[0].replace("op=loadm", "op=loadpure") for r, _ in clean]) if clean else []
    for (r, a), pa in zip(clean, pures):
        st, fld = parse_fields(a)
        pst, pfld = parse_fields(pa)
        keys = ["serial", "comment", "padding", "paddata", "last"]
        if st != pst or (st == "ok" and [fld.get(k) for k in keys] != [pfld.get(k) for k in keys]):
            ctx.disagree("ogg load: program without faults vs pure load of the model", r[4], model=a[:200], impl=pa[:200])
        ctx.traces_validated += 1
    for (line, out, log, data, case), ans in zip(reqs, answers):
        st, fld = parse_fields(ans)
        ctx.traces_validated += 1
        mlog = [] if fld.get("log", "-") == "-" else fld["log"].split(",")
        if out.startswith("ok"):
            want = "ok"
            mine = "serial=%s padding=%s paddata=%s last=%s" % (fld.get("serial"), fld.get("padding"), fld.get("paddata"), fld.get("last"))
            okres = (mine.replace("paddata=-", "paddata=") == out[3:].replace("paddata=-", "paddata="))
        else:
            want = "err:" + out.split(" ")[1]
            okres = True
        if st != want or not okres:
            ctx.disagree("ogg load program: outcome", case, model=ans[:300], impl=out)
        elif fld.get("data") != hx(data):
            ctx.disagree("ogg load program: the model changes the file", case, model=ans[:200], impl="untouched")
        elif not _same_calls(log, mlog):
            ctx.disagree("ogg load program: file-object calls", case, model=",".join(mlog)[-400:], impl=",".join(log)[-400:])
    return ncases


if __name__ == "__main__":
    # stand-alone run: /venv/bin/python ogginject_tie.py [cases per codec] [seed]
    import sys, random, collections, json

    class _Ctx:
        def __init__(self, seed):
            self.rng = random.Random(seed); self.hist = collections.Counter(); self.violations = []; self.disagreements = []
            self.notes = []; self.traces_validated = 0; self.ncase = 0; self.driver = None

        def budget(self, q, t): return t
        def case(self, **kw): self.ncase += 1
        def violation(self, key, what, case): self.violations.append((key, what, case))
        def disagree(self, what, case, model=None, impl=None): self.disagreements.append((what, case, model, impl))

        def model_ok(self):
            import vcheck
            self.driver = vcheck.Driver(os.path.exists(vcheck.DRIVER))
            return self.driver.available
    c15 = len(sys.argv) > 1 and sys.argv[1] == "c15"          # ogginject_tie.py c15 [cases] [seed]
    faults = len(sys.argv) > 1 and sys.argv[1] == "faults"    # ogginject_tie.py faults [layouts per codec] [seed]
    loadf = len(sys.argv) > 1 and sys.argv[1] == "load"       # ogginject_tie.py load [files per codec] [seed]
    if c15 or faults or loadf:
        sys.argv.pop(1)
    if len(sys.argv) > 1:
        os.environ["VERIF_OGGAPI_CASES" if c15 else "VERIF_OGGFAULT_CASES" if faults else "VERIF_OGGLOAD_CASES" if loadf else "VERIF_OGGINJECT_CASES"] = sys.argv[1]
    ctx = _Ctx(int(sys.argv[2]) if len(sys.argv) > 2 else 1)
    only = sys.argv[3].split(",") if len(sys.argv) > 3 else None
    ncases = run_c15(ctx) if c15 else run_faults(ctx) if faults else run_load_faults(ctx) if loadf else run(ctx, only)
    print("cases", ncases, "traces", ctx.traces_validated, "disagreements", len(ctx.disagreements), "violations", len(ctx.violations))
    for k, v in sorted(ctx.hist.items()):
        print("  ", k, v)
    for n in ctx.notes:
        print("note:", n)
    seen = collections.Counter()
    for key, what, case in ctx.violations:
        seen[key] += 1
        if seen[key] <= 2:
            print("VIOLATION", key, what, json.dumps({k: (v if len(str(v)) < 200 else str(v)[:200] + "…") for k, v in case.items()}))
    for key, cnt in sorted(seen.items()):
        print("  violation-count", key, cnt)
    for what, case, model, impl in ctx.disagreements[:12]:
        print("DISAGREE", json.dumps({k: (v if len(str(v)) < 120 else str(v)[:120] + "…") for k, v in case.items()}), "\n    model:", model[:200], "\n    impl: ", impl[:200])
