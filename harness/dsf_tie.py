"""dsf_tie.py — correspondence of the Lean model of DSF files (lean/MutagenModel/Model/Container/Dsf.lean)
with _DSFID3.save / DSF.save, the module function mutagen.dsf.delete and the method DSF.delete, and the
statements of the container properties (C02, C03, C07, C08, C09) on the real output for synthesised
well-formed layouts [DSD chunk][fmt chunk][data chunk][ID3 tag?].

The model is asked through the compiled driver (`dsf op=save|delete|walk|read …`); when the environment
variable VERIF_DSF_DRIVER holds a command line, that command is run instead (one request per line on
stdin, one answer per line on stdout).  All file objects are io.BytesIO positioned at 0 (the chunk
loaders of mutagen/dsf.py read from where the file object stands)."""
import io, os, shlex, struct, subprocess, warnings
from vcheck import hx
from guards import timed

SAMPLES = ["with-id3.dsf", "without-id3.dsf", "2822400-1ch-0s-silence.dsf"]
BIG_SAMPLE = "5644800-2ch-s01-silence.dsf"


def rbytes(rng, n):
    return bytes(rng.randrange(256) for _ in range(n))


def q(n):
    return struct.pack("<Q", n)


def dsd_chunk(total, pointer, magic=b"DSD ", size=28):
    return magic + q(size) + q(total) + q(pointer)


def syncsafe(n):
    return bytes([(n >> 21) & 0x7F, (n >> 14) & 0x7F, (n >> 7) & 0x7F, n & 0x7F])


def fmt_chunk(rng):
    ch = rng.choice([1, 2, 6])
    return b"fmt " + q(52) + struct.pack("<6LQ2L", 1, 0, rng.choice([1, 2, 7]), ch, rng.choice([2822400, 5644800]), rng.choice([1, 8]),
                                         rng.randrange(1 << 20), 4096, rng.choice([0, 0, 7]))


def data_chunk(rng):
    n = rng.choice([0, 0, 1, 17, 256, 4096, 4096, 8192])
    return b"data" + q(12 + n) + rbytes(rng, n)


def id3_blob(rng, loadable=True):
    """a well-formed ID3v2 tag region: flag-less header of version 2/3/4 whose size field covers the rest"""
    n = rng.choice([10, 11, 45, 46, 300, 1034, 1035, 2500, 12000])
    body = n - 10
    vmaj = rng.choice([3, 4, 4, 2])
    if loadable and body >= 12 and vmaj != 2:
        fr = b"TIT2" + (syncsafe(2) if vmaj == 4 else struct.pack(">L", 2)) + b"\0\0" + b"\x03o"
        inner = fr + b"\0" * (body - len(fr))
    else:
        inner = rbytes(rng, min(body, 20)) + b"\0" * (body - min(body, 20))
    return b"ID3" + bytes([vmaj, 0, 0]) + syncsafe(body) + inner


def render(lay):
    pos = 28 + len(lay["fmt"]) + len(lay["data"])
    return dsd_chunk(pos + len(lay["tag"]), pos if lay["tag"] else 0) + lay["fmt"] + lay["data"] + lay["tag"]


def strict_parse(f):
    """the format's rules and nothing else: -> dict(fmt, data, tag) or None"""
    if len(f) < 92 or f[:4] != b"DSD ":
        return None
    size, total, ptr = struct.unpack("<QQQ", f[4:28])
    if size != 28 or total != len(f):
        return None
    if f[28:32] != b"fmt " or struct.unpack("<Q", f[32:40])[0] != 52 or struct.unpack("<LL", f[40:48]) != (1, 0):
        return None
    if f[80:84] != b"data":
        return None
    n = struct.unpack("<Q", f[84:92])[0]
    if n < 12 or 80 + n > len(f):
        return None
    if ptr == 0:
        return dict(fmt=f[28:80], data=f[80:80 + n], tag=b"") if len(f) == 80 + n else None
    if ptr != 80 + n:
        return None
    t = f[ptr:]
    if len(t) < 10 or t[:3] != b"ID3" or t[3] not in (2, 3, 4) or any(b & 0x80 for b in t[6:10]):
        return None
    if (t[3] == 4 and t[5] & 0x0f) or (t[3] == 3 and t[5] & 0x1f) or t[5] & 0x40:
        return None
    if ((t[6] << 21) | (t[7] << 14) | (t[8] << 7) | t[9]) + 10 != len(t):
        return None
    return dict(fmt=f[28:80], data=f[80:80 + n], tag=t)


def gen_plain(rng):
    return dict(fmt=fmt_chunk(rng), data=data_chunk(rng), tag=id3_blob(rng) if rng.random() < 0.65 else b"")


KINDS = ["plain"] * 9 + ["sample", "truncated", "total-wrong", "ptr-inside", "ptr-behind", "ptr-huge", "ptr-rejected", "junk-after",
                         "multi-tag", "bad-dsd", "bad-fmt", "bad-data", "data-size-off", "tag-header-odd", "tag-claims-more",
                         "tag-claims-less", "tag-short", "no-id3-at-pointer", "tiny", "ptr-zero-with-tag", "big-sample"]


def gen_file(rng, op, kind=None):
    """-> (bytes, kind, layout or None); `layout` for the well-formed kinds, dict(damaged=…, …) for damaged files
    whose parts are still known; `kind` forces what is otherwise drawn"""
    kind = kind or rng.choice(KINDS)
    lay = gen_plain(rng)
    data = render(lay)
    pos = 28 + len(lay["fmt"]) + len(lay["data"])
    if kind == "plain":
        return data, kind, lay
    if kind == "sample" or (kind == "big-sample" and rng.random() < 0.1):
        name = rng.choice(SAMPLES) if kind == "sample" else BIG_SAMPLE
        with open(os.path.join("/repo/tests/data", name), "rb") as h:
            raw = h.read()
        p = strict_parse(raw)
        return raw, "sample", p
    if kind == "big-sample":
        return data, "plain", lay
    if kind == "truncated":
        return data[:rng.choice([rng.randrange(len(data)), 27, 28, 79, 80, 91, 92, max(0, len(data) - 1), max(0, len(data) - 5)])], kind, None
    if kind == "total-wrong":
        total = rng.choice([0, 1, len(data) - 1, len(data) + 1, len(data) + 1000, (1 << 64) - 1, 1 << 63])
        return data[:12] + q(total) + data[20:], kind, dict(damaged=kind, lay=lay, ptr=pos if lay["tag"] else 0)
    if kind == "ptr-inside":
        ptr = rng.choice([1, 5, 12, 27, 28, 29, 40, 79, 80, 81, 91, 92, max(92, pos - 1), max(92, pos - 7), rng.randrange(1, pos)])
        return data[:20] + q(ptr) + data[28:], kind, dict(damaged=kind, lay=lay, ptr=ptr)
    if kind == "ptr-behind":
        ptr = len(data) + rng.choice([1, 2, 9, 10, 11, 100, 5000])
        return data[:20] + q(ptr) + data[28:], kind, dict(damaged=kind, lay=lay, ptr=ptr)
    if kind == "ptr-huge":
        # a save would really try to allocate that much memory: delete only sees these
        ptr = rng.choice([1 << 40, (1 << 63) - 1, (1 << 62) + 12345]) if op == "delete" else len(data) + 70000
        return data[:20] + q(ptr) + data[28:], kind, None
    if kind == "ptr-rejected":
        return data[:20] + q(rng.choice([1 << 63, (1 << 64) - 1, (1 << 63) + 92])) + data[28:], kind, None
    if kind == "junk-after":
        junk = rng.choice([b"\0", b"\0" * 100, rbytes(rng, 40), b"TAG" + b"x" * 125, b"APETAGEX" + rbytes(rng, 24), b"ID3\x04\0\0\0\0\0\0"])
        return data + junk, kind, dict(damaged=kind, lay=lay, ptr=pos if lay["tag"] else 0, junk=junk)
    if kind == "multi-tag":
        if not lay["tag"]:
            lay["tag"] = id3_blob(rng)
        second = id3_blob(rng)
        return render(lay) + second, kind, dict(damaged=kind, lay=lay, ptr=pos, junk=second)
    if kind == "bad-dsd":
        how = rng.choice(["magic", "size", "size"])
        if how == "magic":
            return rng.choice([b"DSD\0", b"dsd ", b"FRM8", b"DSDX"]) + data[4:], kind, None
        return data[:4] + q(rng.choice([0, 27, 29, 52, 1 << 32])) + data[12:], kind, None
    if kind == "bad-fmt":
        how = rng.choice(["magic", "size", "version", "id"])
        f = lay["fmt"]
        f = {"magic": rng.choice([b"fmt\0", b"FMT ", b"data"]) + f[4:], "size": f[:4] + q(rng.choice([0, 51, 53, 40])) + f[12:],
             "version": f[:12] + struct.pack("<L", rng.choice([0, 2, 1 << 31])) + f[16:],
             "id": f[:16] + struct.pack("<L", rng.choice([1, 2, 255])) + f[20:]}[how]
        return data[:28] + f + data[80:], kind, dict(damaged=kind, lay=dict(lay, fmt=f), ptr=pos if lay["tag"] else 0)
    if kind == "bad-data":
        d = lay["data"]
        d = rng.choice([rng.choice([b"DATA", b"dat\0", b"fmt "]) + d[4:], d[:4] + q(rng.choice([0, 1, 11])) + d[12:]])
        return data[:80] + d + data[80 + len(d):], kind, dict(damaged=kind, lay=dict(lay, data=d), ptr=pos if lay["tag"] else 0)
    if kind == "data-size-off":
        d = lay["data"]
        d = d[:4] + q(len(d) + rng.choice([-1, 1, 100, 1 << 40]) if len(d) > 12 else len(d) + rng.choice([1, 100])) + d[12:]
        return data[:80] + d + data[80 + len(d):], kind, dict(damaged=kind, lay=dict(lay, data=d), ptr=pos if lay["tag"] else 0)
    body = rbytes(rng, rng.choice([0, 1, 11, 40, 300]))
    if kind == "tag-header-odd":
        how = rng.choice(["bad-version", "bad-size", "bad-flags", "ext", "v22-flags", "unsynch"])
        vmaj = {"bad-version": rng.choice([0, 1, 5, 255]), "bad-size": 4, "bad-flags": rng.choice([3, 4]), "ext": rng.choice([3, 4]),
                "v22-flags": 2, "unsynch": rng.choice([3, 4])}[how]
        flags = {"bad-flags": rng.choice([0x01, 0x08, 0x10 if vmaj == 3 else 0x0f]), "ext": 0x40, "v22-flags": rng.choice([0x1f, 0x3f, 0x80]),
                 "unsynch": 0x80}.get(how, 0)
        size = bytes([0x80, 0, 0, len(body) & 0x7F]) if how == "bad-size" else syncsafe(len(body))
        lay["tag"] = b"ID3" + bytes([vmaj, rng.choice([0, 0, 7]), flags]) + size + body
        return render(lay), kind + ":" + how, None
    if kind == "tag-claims-more":
        lay["tag"] = b"ID3" + bytes([rng.choice([3, 4]), 0, 0]) + syncsafe(len(body) + rng.choice([1, 5000, (1 << 28) - 1 - len(body)])) + body
        return render(lay), kind, None
    if kind == "tag-claims-less":
        extra = rbytes(rng, rng.choice([1, 10, 200]))
        lay["tag"] = b"ID3" + bytes([rng.choice([3, 4]), 0, 0]) + syncsafe(len(body)) + body
        return render(lay) + extra, kind, dict(damaged="junk-after", lay=lay, ptr=pos, junk=extra)
    if kind == "tag-short":
        lay["tag"] = b"ID3\x04\0\0\0\0\0\0"[:rng.randrange(1, 10)]
        return render(lay), kind, None
    if kind == "no-id3-at-pointer":
        lay["tag"] = rng.choice([rbytes(rng, 30), b"\0" * 20, b"id3\x04\0\0\0\0\0\x0a" + b"\0" * 10, b"TAG" + b"\0" * 125])
        return render(lay), kind, None
    if kind == "tiny":
        return data[:rng.choice([0, 1, 4, 12, 20, 27])], kind, None
    if kind == "ptr-zero-with-tag":
        if not lay["tag"]:
            lay["tag"] = id3_blob(rng)
        data = render(lay)
        return data[:20] + q(0) + data[28:], kind, dict(damaged=kind, lay=lay, ptr=0)
    raise AssertionError(kind)


PADS = ["default", "default", "keep", "0", "1", "777", "20000", "-1"]


def classify(exc):
    from mutagen import MutagenError
    if isinstance(exc, MutagenError):
        return "err mutagen"
    return "err " + {"ValueError": "value", "IndexError": "index", "error": "struct", "KeyError": "key",
                     "AssertionError": "assertion", "OverflowError": "overflow", "TypeError": "type",
                     "MemoryError": "memory"}.get(type(exc).__name__, type(exc).__name__)


def ask_model(ctx, lines):
    cmd = os.environ.get("VERIF_DSF_DRIVER")
    if cmd:
        out = []
        for i in range(0, len(lines), 400):
            p = subprocess.run(shlex.split(cmd), input=("\n".join(lines[i:i + 400]) + "\n").encode(), stdout=subprocess.PIPE,
                               stderr=subprocess.PIPE, timeout=7200)
            got = p.stdout.decode().split("\n")
            if got and got[-1] == "":
                got.pop()
            if p.returncode != 0 or len(got) != len(lines[i:i + 400]):
                raise RuntimeError("VERIF_DSF_DRIVER protocol error: rc=%s, %d answers for %d requests; stderr=%s" % (
                    p.returncode, len(got), len(lines[i:i + 400]), p.stderr.decode()[-400:]))
            out.extend(got)
        return out
    if not ctx.model_ok():
        return None
    return ctx.driver.ask(lines)


def real_walk(data):
    """what the real chunk loaders see: total size, pointer, how many of fmt / data chunk load"""
    from mutagen import dsf
    f = io.BytesIO(data)
    h = dsf.DSDChunk(f)
    n = 0
    try:
        dsf.FormatChunk(f)
        n = 1
        dsf.DataChunk(f)
        n = 2
    except dsf.error:
        pass
    return "ok total=%d pointer=%d chunks=%d" % (h.total_size, h.offset_metdata_chunk, n)


def real_load_head(data):
    """what DSF(fileobj) has in hand when the frame parsing starts: the lines of DSF.load / ID3.load up to
    `self._read(...)` / `find_id3v1(...)`, run on the real DSFFile, _pre_load_header, ID3Header and read_full"""
    from mutagen import dsf
    from mutagen._util import read_full
    from mutagen.id3._tags import ID3Header
    from mutagen.id3._util import ID3NoHeaderError, ID3UnsupportedVersionError, error as ID3Error
    f = io.BytesIO(data)
    dsf.DSFFile(f)
    t = dsf._DSFID3()
    try:
        t._pre_load_header(f)
    except ID3NoHeaderError:
        return "ok notag"
    try:
        h = ID3Header(f)
    except (ID3NoHeaderError, ID3UnsupportedVersionError):
        return "ok searchv1"
    size = h.size - 10
    if h.f_extended:
        size -= 4 + len(h._extdata)
    if size < 0:
        raise ID3Error("Extended header exceeds the tag size")
    try:
        body = read_full(f, size)
    except IOError as e:
        raise ID3Error(e)
    return "ok tag=%s" % hx(body)


def read_answer(data):
    """the answer expected from the specification-side reader for `data`"""
    p = strict_parse(data)
    if p is None:
        return "ok wellformed=0"
    return "ok wellformed=1 fmt=%d data=%d tag=%d" % (len(p["fmt"]), len(p["data"]), len(p["tag"]))


def check_damaged(ctx, lay, op, data, out, case):
    """damaged files that the code accepts: what a save or delete must not do to them.  Independent of the model."""
    key = "dsf:%s:" % op
    inner = lay["lay"]
    ptr = lay["ptr"]
    # the data chunk as its size field announces it (when that is inside the file)
    audio_end = 80 + len(inner["data"])
    # (1) the fmt chunk and the audio are still where they were
    if out[28:audio_end] != data[28:audio_end]:
        ctx.violation(key + "audio-destroyed", "fmt chunk / data chunk bytes were overwritten or cut off (input: %s, metadata pointer %d, "
                      "data chunk ends at %d)" % (lay["damaged"], ptr, audio_end), case)
        return
    # (2) bytes behind the tag region are still in the file
    junk = lay.get("junk")
    if junk and junk not in out[audio_end:]:
        ctx.violation(key + "trailing-data-lost", "%d bytes that followed the ID3 tag are gone (input: %s)" % (len(junk), lay["damaged"]), case)
    # (3) the total size field says how long the file is
    if struct.unpack("<Q", out[12:20])[0] != len(out) and out != data:
        ctx.violation(key + "total-size-wrong", "total size field %d, file length %d (input: %s)" % (
            struct.unpack("<Q", out[12:20])[0], len(out), lay["damaged"]), case)


def check_save(ctx, lay, data, out, vmaj, frames, pad, offered, case):
    """the container statements on the output of a save over a well-formed layout"""
    key = "dsf:save:"
    pos = 28 + len(lay["fmt"]) + len(lay["data"])
    # C02: the header apart from the two fields, fmt and data chunk
    if out[:12] != data[:12] or out[28:pos] != data[28:pos]:
        ctx.violation(key + "foreign-bytes-changed", "DSD chunk id/size, fmt chunk or data chunk are not byte-identical after save", case)
        return
    # C03
    parsed = strict_parse(out)
    if parsed is None:
        total, ptr = struct.unpack("<QQ", out[12:28])
        if total != len(out):
            ctx.violation(key + "total-size-wrong", "total size field %d, file length %d" % (total, len(out)), case)
        elif ptr != pos:
            ctx.violation(key + "pointer-wrong", "metadata pointer %d, the tag is at %d" % (ptr, pos), case)
        else:
            ctx.violation(key + "malformed", "the saved file is not a well-formed DSF file with an ID3 tag region of the announced size", case)
        return
    tag = parsed["tag"]
    if (parsed["fmt"], parsed["data"]) != (lay["fmt"], lay["data"]) or not tag:
        ctx.violation(key + "malformed", "the saved file does not read back as the same chunks plus a tag", case)
        return
    if tag[3] != vmaj:
        ctx.violation(key + "no-id3-header", "the tag does not start with an ID3v2.%d header" % vmaj, case)
        return
    if tag[10:10 + len(frames)] != frames or tag[10 + len(frames):].strip(b"\0"):
        ctx.violation(key + "tag-body", "the tag is not header, frames, zero padding", case)
        return
    got_pad = len(tag) - 10 - len(frames)
    old_n = len(lay["tag"])
    if offered:
        if offered[0] != (old_n - (len(frames) + 10), 0):
            ctx.violation(key + "callback-offer", "the padding callback was offered (padding=%d, size=%d), expected (%d, 0)" % (
                offered[0][0], offered[0][1], old_n - (len(frames) + 10)), case)
        if len(offered) != 1:
            ctx.violation(key + "callback-count", "the padding callback was called %d times" % len(offered), case)
        want = {"keep": max(offered[0][0], 0), "default": got_pad}.get(pad)
        if want is None:
            want = int(pad)
        if got_pad != want:
            ctx.violation(key + "padding-not-obeyed", "callback answered %d, the file has %d bytes of padding" % (want, got_pad), case)
        if pad == "keep" and offered[0][0] >= 0 and (len(out) != len(data) or out[:pos] != data[:pos]):
            ctx.violation(key + "keep-moves-file", "answering with the offered padding changed the file size %d -> %d or a byte in front of the tag" % (
                len(data), len(out)), case)
    if pad == "default":
        avail = old_n - (len(frames) + 10)
        if 0 <= avail <= 1024 and got_pad != avail:
            ctx.violation(key + "default-does-not-reuse", "default padding: %d bytes were available (<= 1 KiB), the file has %d" % (avail, got_pad), case)


def run(ctx):
    """model tie + the container statements on the real output; returns the number of cases"""
    from mutagen import dsf, id3 as I
    from mutagen.id3._tags import ID3SaveConfig
    rng = ctx.rng
    n = int(os.environ.get("VERIF_DSF_CASES", "0")) or ctx.budget(150, 1500)
    texts = ["x", "", "Ünï ✓", "a" * 300, "b" * 5000]
    reqs = []
    ncases = 0

    def fill(tags):
        for _ in range(rng.randrange(0, 4)):
            tags.add(rng.choice([I.TIT2, I.TPE1, I.TALB])(encoding=3, text=[rng.choice(texts)]))
        if rng.random() < 0.4:
            tags.add(I.COMM(encoding=3, lang="eng", desc="", text=[rng.choice(texts)]))

    # every kind of the generator once per operation first (a stratified pass), then the random draws
    forced = [(kd, fop) for kd in sorted(set(KINDS)) if kd not in ("sample", "big-sample") for fop in ("save", "delete")]
    for i in range(len(forced) + n):
        if i < len(forced):
            op = forced[i][1]
            data, kind, lay = gen_file(rng, op, kind=forced[i][0])
        else:
            op = rng.choice(["save", "save", "save", "delete"])
            data, kind, lay = gen_file(rng, op)
        desc = dict(kind=kind, op=op, data=hx(data) if len(data) < 1500 else "len=%d" % len(data))
        f = io.BytesIO(data)
        offered = []
        saver = None
        if op == "save":
            vmaj = rng.choice([3, 4])
            pad = rng.choice(PADS)
            how = rng.choice(["tags", "tags", "filetype"])
            obj = None
            if how == "filetype":
                # through DSF: load, replace the frames, DSF.save
                k0, obj = timed(lambda: dsf.DSF(io.BytesIO(data)), 20)
                if k0 != "ok":
                    how, obj = "tags", None
            if obj is not None:
                if obj.tags is None:
                    obj.add_tags()
                obj.tags.clear()
                fill(obj.tags)
                tags, saver = obj.tags, obj
            else:
                tags = dsf._DSFID3()
                fill(tags)
                saver = tags
            frames = bytes(tags._write(ID3SaveConfig(vmaj, "/")))

            answers = []

            def cb(info, pad=pad):
                offered.append((info.padding, info.size))
                a = info.get_default_padding() if pad == "default" else max(info.padding, 0) if pad == "keep" else int(pad)
                answers.append(a)
                return a
            # the default policy: `padding=None`, or - the same thing, but its answer is seen - a callback that asks for it
            recorded = pad != "default" or rng.random() < 0.5
            padding = cb if recorded else None
            k, r = timed(lambda: saver.save(f, v2_version=vmaj, padding=padding), 20)
            line = "dsf op=save data=%s vmaj=%d frames=%s pad=%s" % (hx(data), vmaj, hx(frames), pad)
            desc.update(vmaj=vmaj, pad=pad, frames_len=len(frames), how=how)
            # for the total model (`savex`), asked where `save` says "outside the model": the answer the callback gave
            savex = ("dsf op=savex data=%s vmaj=%d frames=%s ans=%%s" % (hx(data), vmaj, hx(frames))) if recorded else None
        else:
            how = rng.choice(["function", "method"])
            if how == "function":
                k, r = timed(lambda: dsf.delete(f), 20)
            else:
                with warnings.catch_warnings():
                    warnings.simplefilter("ignore")
                    inst = dsf.DSF()
                k, r = timed(lambda: inst.delete(f), 20)
            line = "dsf op=delete data=%s" % hx(data)
            desc.update(how=how)
            savex = None
        if k == "hang":
            ctx.violation("dsf:%s:hang" % op, "did not finish", desc)
            continue
        out = f.getvalue()
        impl = "ok v=%s" % hx(out) if k == "ok" else classify(r)
        ctx.case(key=("dsf", op, kind, i), nontrivial=(k == "ok" and out != data), modelled=True, sample=desc if i in (2, 31) else None)
        ctx.hist["dsf:%s:%s" % (op, "ok" if k == "ok" else impl)] += 1
        ctx.hist["dsf:kind:" + kind.split(":")[0]] += 1
        if savex is not None:
            # a callback that was called twice or whose answers differ cannot be replayed by a constant
            savex = savex % (answers[0] if answers else 0) if len(set(answers)) <= 1 else None
            if savex is not None and answers and abs(answers[0]) > (1 << 22):
                # a tag header that claims ~2**28 bytes and a callback that keeps them: the real code writes 256 MiB of
                # zeros; the model's byte lists are not made for that (tens of GB) - the real outcome is still checked
                savex = None
                ctx.hist["dsf:savex-skipped:huge-padding"] += 1
        reqs.append((line, impl, desc, savex))
        ncases += 1
        # C04 on the real constructor, and the model of its first part
        kc, rc = timed(lambda: dsf.DSF(io.BytesIO(data)), 20)
        if kc == "hang":
            ctx.violation("dsf:load:hang", "DSF(fileobj) did not finish", desc)
        elif kc != "ok" and classify(rc) != "err mutagen":
            ctx.violation("dsf:load:escapes", "DSF(fileobj) raised %s" % classify(rc), desc)
        if rng.random() < 0.5:
            kl, rl = timed(lambda: real_load_head(data), 20)
            head = rl if kl == "ok" else classify(rl)
            reqs.append(("dsf op=load data=%s" % hx(data), head, dict(desc, op="load"), None))
            if head == "err mutagen" and kc == "ok":
                ctx.violation("dsf:load:accepted", "DSF(fileobj) accepts a file whose header part is rejected", desc)
        # the chunk loaders alone, and the specification-side reader against the independent parser
        if rng.random() < 0.3:
            kw, rw = timed(lambda: real_walk(data), 20)
            reqs.append(("dsf op=walk data=%s" % hx(data), rw if kw == "ok" else classify(rw), dict(desc, op="walk"), None))
        if rng.random() < 0.3 and len(out if k == "ok" else data) <= (1 << 22):
            which = out if k == "ok" else data
            reqs.append(("dsf op=read data=%s" % hx(which), read_answer(which), dict(desc, op="read", of="output" if k == "ok" else "input"), None))
        # ---- the statements on the real output, for the layouts that are what they seem
        if lay is None:
            continue
        if "damaged" in lay:
            if k == "ok":
                check_damaged(ctx, lay, op, data, out, desc)
            continue
        case = dict(desc, tag_len=len(lay["tag"]))
        if k != "ok":
            # a well-formed file of this size can always be tagged or untagged - except for a padding callback that
            # answers with a negative number
            if not (op == "save" and pad == "-1"):
                ctx.violation("dsf:%s:raises" % op, "%s on a well-formed file" % impl, case)
            continue
        if op == "save":
            check_save(ctx, lay, data, out, vmaj, frames, pad, offered, case)
            # C07: the same save once more gives the same bytes
            f2 = io.BytesIO(out)
            k2, r2 = timed(lambda: saver.save(f2, v2_version=vmaj, padding=padding), 20)
            if k2 != "ok" or f2.getvalue() != out:
                ctx.violation("dsf:save:not-idempotent", "saving the same tags a second time (padding: %s) changed the file or raised" % pad, case)
        else:
            exp = render(dict(lay, tag=b""))
            if out != exp:
                parsed = strict_parse(out)
                if parsed is None:
                    ctx.violation("dsf:delete:malformed", "after delete the file is not a well-formed DSF file (pointer 0, total size = length)", case)
                elif parsed["tag"]:
                    ctx.violation("dsf:delete:tag-left", "after delete the file still has a metadata chunk", case)
                else:
                    ctx.violation("dsf:delete:wrong-result", "delete changed something besides the tag, the pointer and the total size", case)
            else:
                # deleting again changes nothing; a new tag can be saved and lands at the end
                f2 = io.BytesIO(out)
                k2, r2 = timed(lambda: dsf.delete(f2), 20)
                if k2 != "ok" or f2.getvalue() != out:
                    ctx.violation("dsf:delete:not-idempotent", "a second delete changed the file or raised", case)
                t2 = dsf._DSFID3(); t2.add(I.TIT2(encoding=3, text=["again"]))
                fr2 = bytes(t2._write(ID3SaveConfig(4, "/")))
                off2 = []
                f2.seek(0)
                k3, r3 = timed(lambda: t2.save(f2, padding=lambda info: (off2.append((info.padding, info.size)), 3)[1]), 20)
                if k3 != "ok":
                    ctx.violation("dsf:delete:retag-raises", "saving a new tag after delete raised", case)
                else:
                    check_save(ctx, dict(lay, tag=b""), out, f2.getvalue(), 4, fr2, "3", off2, dict(case, step="retag"))
    answers = ask_model(ctx, [r[0] for r in reqs]) if reqs else None
    if answers is None:
        ctx.notes.append("dsf_tie: model driver unavailable, tie skipped")
        return ncases
    if any(a == "bad-op" for a in answers):
        ctx.notes.append("dsf_tie: the driver does not know the `dsf` command yet (not hooked into Driver/Main.lean); tie skipped")
        return ncases
    again = []
    for (line, impl, desc, savex), ans in zip(reqs, answers):
        if ans.startswith("err notimplemented"):
            if savex is not None:
                again.append((savex, impl, desc))
            else:
                ctx.hist["dsf:outside-model"] += 1
            continue
        ctx.traces_validated += 1
        if ans != impl:
            ctx.disagree("dsf container", desc, model=ans[:200], impl=impl[:200])
    # what the tied model leaves out, against the total model
    if again:
        answers2 = ask_model(ctx, [r[0] for r in again])
        if any(a == "bad-op" for a in answers2):
            ctx.notes.append("dsf_tie: the driver does not know `dsf op=savex` yet; %d cases stay outside the model" % len(again))
            ctx.hist["dsf:outside-model"] += len(again)
            return ncases
        for (line, impl, desc), ans in zip(again, answers2):
            ctx.traces_validated += 1
            ctx.hist["dsf:total-model"] += 1
            if ans != impl:
                ctx.disagree("dsf container (total model)", desc, model=ans[:200], impl=impl[:200])
    return ncases


# ---------------------------------------------------------------------------------------------------
# file-operation level (C19 / C06): the FileM programs `saveEntry` / `deleteEntry` of
# lean/MutagenModel/Model/Container/DsfM.lean against the real code on fault-injecting, capacity-limited file objects

def _small_layouts(rng):
    """well-formed small files, and a few damaged ones that steer the header parser into its other branches"""
    out = []
    for n in (0, 1, 17):
        for tag_n in (None, 10, 11, 45, 300):
            lay = dict(fmt=fmt_chunk(rng), data=b"data" + q(12 + n) + rbytes(rng, n), tag=b"")
            if tag_n is not None:
                body = tag_n - 10
                lay["tag"] = b"ID3" + bytes([rng.choice([3, 4]), 0, 0]) + syncsafe(body) + rbytes(rng, min(body, 8)) + b"\0" * (body - min(body, 8))
            out.append(("plain", render(lay), lay))
    base = dict(fmt=fmt_chunk(rng), data=b"data" + q(12 + 5) + rbytes(rng, 5), tag=b"")
    for name, tag in [("ext24", b"ID3\x04\x00\x40" + syncsafe(12) + bytes([0, 0, 0, 6, 1, 0, 0, 0, 0, 0, 0, 0])),
                      ("ext23", b"ID3\x03\x00\x40" + syncsafe(12) + bytes([0, 0, 0, 2, 1, 0, 0, 0, 0, 0, 0, 0])),
                      ("ext-frameid", b"ID3\x04\x00\x40" + syncsafe(12) + b"TIT2" + bytes(8)),
                      ("ext-short", b"ID3\x04\x00\x40" + syncsafe(12) + bytes([0, 0, 0, 100, 1, 0])),
                      ("bad-version", b"ID3\x07\x00\x00" + syncsafe(3) + b"abc"),
                      ("no-id3", b"junkjunkjunkjunk"),
                      ("tag-short", b"ID3\x04\x00")]:
        out.append((name, render(dict(base, tag=tag)), None))
    full = render(dict(base, tag=b""))
    out.append(("junk-after", full + b"xyz" * 5, None))
    out.append(("truncated", full[:60], None))
    out.append(("ptr-behind", full[:20] + q(len(full) + 9) + full[28:], None))
    return out


def _outcome(k, r):
    if k == "ok":
        return "ok"
    return classify(r)


def _state(f, head):
    return "%s data=%s pos=%d log=%s" % (head, hx(f.getvalue()), f.pos(), ",".join(f.log) or "-")


def _cmp(ctx, what, desc, model, impl):
    """outcome, bytes left and file position must agree; the call log too, unless it has the relative seek of the
    extended-header branch (logged by its offset on the Python side)"""
    ctx.traces_validated += 1
    m, i = model.split(" log=")[0], impl.split(" log=")[0]
    if m != i or ("s-" not in impl and model != impl):
        ctx.disagree(what, desc, model=model[-400:] if m == i else m[:300], impl=impl[-400:] if m == i else i[:300])


def run_faults(ctx):
    """real mutagen on FaultFile vs `dsf op=savem|deletem` for layouts x capacities x fault indices x short reads;
    returns the number of cases"""
    from fobj import FaultFile
    from mutagen import dsf, id3 as I
    from mutagen.id3._tags import ID3SaveConfig
    import warnings
    rng = ctx.rng
    layouts = _small_layouts(rng)
    if ctx.quick:
        layouts = rng.sample(layouts, 8)
    reqs = []
    ncases = 0
    for kind, data, lay in layouts:
        # ---- save
        for frames_text, pad in [("x", "0"), ("x" * 40, "keep"), ("", "7"), ("y" * 300, "300")][:2 if ctx.quick else 4]:
            tags = dsf._DSFID3()
            if frames_text:
                tags.add(I.TIT2(encoding=3, text=[frames_text]))
            vmaj = rng.choice([3, 4])
            frames = bytes(tags._write(ID3SaveConfig(vmaj, "/")))

            def cb(info, pad=pad):
                return max(info.padding, 0) if pad == "keep" else int(pad)

            def go(f):
                return timed(lambda: tags.save(f, v2_version=vmaj, padding=cb), 20)
            ref = FaultFile(data)
            k0, r0 = go(ref)
            base = "dsf op=savem data=%s vmaj=%d frames=%s ans=%s" % (hx(data), vmaj, hx(frames), pad)
            desc0 = dict(kind=kind, op="save", pad=pad, frames_len=len(frames), data=hx(data) if len(data) < 700 else "len=%d" % len(data))
            reqs.append((base, _state(ref, _outcome(k0, r0)), dict(desc0, env="clean")))
            ncases += 1
            n = ref.calls
            growth = max(0, len(ref.getvalue()) - len(data)) if k0 == "ok" else 0
            plans = [dict(fail_at=i) for i in range(n)]
            reads = [(i, int(l[1:])) for i, l in enumerate(ref.log) if l[0] == "r"]
            for i, want in reads:
                for short in sorted({0, 1, want // 2}):
                    if short < want:
                        plans.append(dict(short=(i, short)))
            # (a write behind the end of the file that hits ENOSPC: FileM's `fwrite` zero-fills the gap, FaultFile does
            # not - a corner of the shared file model, left out)
            if growth and kind != "ptr-behind":
                rs = range(growth + 1) if growth <= 48 else sorted(set(rng.sample(range(growth + 1), 24)) | {0, 1, growth - 1, growth})
                for r in rs:
                    for leak in (0, 1, 5, 10 ** 6):
                        plans.append(dict(cap=len(data) + r, leak=leak))
                plans.append(dict(cap=max(0, len(data) - 3), leak=2))
            if ctx.quick and len(plans) > 60:
                plans = rng.sample(plans, 60)
            for p in plans:
                f = FaultFile(data, **p)
                k, r = go(f)
                if k == "hang":
                    ctx.violation("dsf:save:hang", "did not finish", dict(desc0, env=p)); continue
                line = base + ("" if "fail_at" not in p else " fail=%d:io" % p["fail_at"]) + \
                    ("" if "short" not in p else " short=%d:%d" % p["short"]) + \
                    ("" if "cap" not in p else " cap=%d leak=%d" % (p["cap"], p["leak"]))
                desc = dict(desc0, env={a: b for a, b in p.items()})
                reqs.append((line, _state(f, _outcome(k, r)), desc))
                ncases += 1
                ctx.case(key=("dsf-faults", kind, "save", pad, repr(sorted(p.items()))), nontrivial=True, modelled=True)
                ctx.hist["dsf-faults:save:" + _outcome(k, r)] += 1
                ctx.hist["dsf-faults:env:" + ("cap" if "cap" in p else "short" if "short" in p else "fail")] += 1
                # the statements: C06 - only MutagenError (or verify_fileobj's ValueError at the first two calls);
                # C19 - on ENOSPC everything in front of the metadata pointer except the pointer field itself is untouched
                out = f.getvalue()
                if k == "exc" and classify(r) != "err mutagen" and not (classify(r) == "err value" and p.get("fail_at") in (0, 1)):
                    ctx.violation("dsf:save:escape:" + type(r).__name__, "%s escaped from _DSFID3.save" % type(r).__name__, desc)
                if lay is not None and "cap" in p and k == "exc":
                    pos = 28 + len(lay["fmt"]) + len(lay["data"])
                    if out[:20] != data[:20] or out[28:pos] != data[28:pos]:
                        ctx.violation("dsf:save:enospc-payload", "after ENOSPC the chunks in front of the tag are not what they were", desc)
                    if lay["tag"] and p["leak"] == 0 and out != data:
                        ctx.violation("dsf:save:enospc-not-identical", "ENOSPC without a partial write, existing tag: the file changed", desc)
                if lay is not None and k == "ok" and "short" not in p:
                    if strict_parse(out) is None:
                        ctx.violation("dsf:save:ok-but-incomplete", "save returned normally, the file is not a well-formed DSF file", desc)
        # ---- delete
        for method in (False, True):
            def god(f, method=method):
                if method:
                    with warnings.catch_warnings():
                        warnings.simplefilter("ignore")
                        inst = dsf.DSF()
                    return timed(lambda: inst.delete(f), 20)
                return timed(lambda: dsf.delete(f), 20)
            ref = FaultFile(data)
            k0, r0 = god(ref)
            base = "dsf op=deletem data=%s method=%d" % (hx(data), int(method))
            desc0 = dict(kind=kind, op="delete", method=method, data=hx(data) if len(data) < 700 else "len=%d" % len(data))
            reqs.append((base, _state(ref, _outcome(k0, r0)), dict(desc0, env="clean")))
            ncases += 1
            plans = [dict(fail_at=i) for i in range(ref.calls)]
            for i, l in enumerate(ref.log):
                if l[0] == "r" and int(l[1:]) > 0:
                    for short in sorted({0, 1, int(l[1:]) // 2}):
                        plans.append(dict(short=(i, short)))
            plans.append(dict(cap=len(data), leak=3))
            plans.append(dict(cap=10, leak=3))
            if ctx.quick and len(plans) > 25:
                plans = rng.sample(plans, 25)
            for p in plans:
                f = FaultFile(data, **p)
                k, r = god(f)
                line = base + ("" if "fail_at" not in p else " fail=%d:io" % p["fail_at"]) + \
                    ("" if "short" not in p else " short=%d:%d" % p["short"]) + \
                    ("" if "cap" not in p else " cap=%d leak=%d" % (p["cap"], p["leak"]))
                desc = dict(desc0, env={a: b for a, b in p.items()})
                reqs.append((line, _state(f, _outcome(k, r)), desc))
                ncases += 1
                ctx.case(key=("dsf-faults", kind, "delete", method, repr(sorted(p.items()))), nontrivial=True, modelled=True)
                ctx.hist["dsf-faults:delete:" + _outcome(k, r)] += 1
                if k == "exc" and classify(r) != "err mutagen" and not (classify(r) == "err value" and p.get("fail_at", 9) < (4 if method else 2)):
                    ctx.violation("dsf:delete:escape:" + type(r).__name__, "%s escaped from dsf.delete" % type(r).__name__, desc)
    answers = ask_model(ctx, [r[0] for r in reqs]) if reqs else None
    if answers is None:
        ctx.notes.append("dsf_tie.run_faults: model driver unavailable, tie skipped")
        return ncases
    if any(a == "bad-op" for a in answers):
        ctx.notes.append("dsf_tie.run_faults: the driver does not know `dsf op=savem` yet; tie skipped")
        return ncases
    for (line, impl, desc), ans in zip(reqs, answers):
        _cmp(ctx, "dsf file operations", desc, ans, impl)
    return ncases


# ---------------------------------------------------------------------------------------------------
# load as a program (C06): `loadEntry` of lean/MutagenModel/Model/Container/DsfLoadM.lean against DSF(fileobj)

def _load_layouts(rng):
    out = [(k, d) for k, d, _ in _small_layouts(rng)]
    base = dict(fmt=fmt_chunk(rng), data=b"data" + q(12 + 5) + rbytes(rng, 5), tag=b"")
    v1 = b"TAG" + b"title".ljust(30, b"\0") + b"artist".ljust(30, b"\0") + b"album".ljust(30, b"\0") + b"1999" + b"c".ljust(29, b"\0") + b"\x01\x0c"
    good = b"ID3\x04\x00\x00" + syncsafe(14) + b"TIT2" + syncsafe(2) + b"\0\0" + b"\x03o" + b"\0\0"
    for name, tag in [("tag+v1", good + v1), ("v1-at-pointer", v1), ("no-id3+v1", b"junkjunkjunk" + v1), ("bad-version+v1", b"ID3\x07\x00\x00" + syncsafe(3) + b"abc" + v1),
                      ("tag+v1-126", good + v1[:93] + v1[95:]), ("tag+apetag", good + b"x" * 99 + b"APETAGEX" + b"y" * 24),
                      ("tag+TAG-too-far", good + b"TAG" + b"z" * 130), ("ext24+v1", b"ID3\x04\x00\x40" + syncsafe(12) + bytes([0, 0, 0, 6, 1, 0, 0, 0, 0, 0, 0, 0]) + v1),
                      ("ext-too-big", b"ID3\x04\x00\x40" + syncsafe(6) + bytes([0, 0, 0, 12]) + bytes(8)),
                      ("unsynch", b"ID3\x03\x00\x80" + syncsafe(4) + b"\xff\x00\xe0\x00")]:
        out.append((name, render(dict(base, tag=tag))))
    out.append(("empty", b""))
    out.append(("tiny", render(base)[:30]))
    return out


def run_load_faults(ctx):
    """real DSF(fileobj) on FaultFile vs `dsf op=loadm`: every fault index, every read cut to 0 / 1 / n//2 bytes;
    outcome class, what was loaded (no tags / ID3v1 only / ID3v2), call log, position, file untouched, not closed"""
    from fobj import FaultFile
    from mutagen import dsf
    rng = ctx.rng
    layouts = _load_layouts(rng)
    if ctx.quick:
        layouts = rng.sample(layouts, 12)
    reqs = []
    ncases = 0

    def go(f):
        return timed(lambda: dsf.DSF(f), 20)

    def kind_of(k, r):
        if k != "ok":
            return None
        if r.tags is None:
            return "none"
        return "v1only" if r.tags.version == (1, 1) else "tag"
    for name, data in layouts:
        ref = FaultFile(data)
        k0, r0 = go(ref)
        plans = [dict()] + [dict(fail_at=i) for i in range(ref.calls)]
        for i, l in enumerate(ref.log):
            if l[0] == "r" and int(l[1:]) > 0:
                for short in sorted({0, 1, int(l[1:]) // 2}):
                    plans.append(dict(short=(i, short)))
        for p in plans:
            f = FaultFile(data, **p)
            k, r = go(f)
            desc = dict(kind=name, op="load", env=dict(p) or "clean", data=hx(data) if len(data) < 700 else "len=%d" % len(data))
            if k == "hang":
                ctx.violation("dsf:load:hang", "did not finish", desc); continue
            line = "dsf op=loadm data=%s" % hx(data) + ("" if "fail_at" not in p else " fail=%d:io" % p["fail_at"]) + \
                ("" if "short" not in p else " short=%d:%d" % p["short"])
            reqs.append((line, _state(f, _outcome(k, r)), kind_of(k, r), desc))
            ncases += 1
            ctx.case(key=("dsf-load-faults", name, repr(sorted(p.items()))), nontrivial=bool(p), modelled=True)
            ctx.hist["dsf-load:" + _outcome(k, r)] += 1
            # the statements: only MutagenError (or verify_fileobj's ValueError at one of its two read(0) calls);
            # the file is untouched and not closed
            if k == "exc" and classify(r) != "err mutagen" and not (classify(r) == "err value" and p.get("fail_at") in (0, 7)):
                ctx.violation("dsf:load:escape:" + type(r).__name__, "%s escaped from DSF(fileobj)" % type(r).__name__, desc)
            if f.getvalue() != data:
                ctx.violation("dsf:load:writes", "load changed the file", desc)
            if f.closed_called:
                ctx.violation("dsf:load:closes-caller-file", "close() was called on the caller's file object", desc)
            # a short read that is taken for "no tag here": the load succeeds and sees less than the clean load
            if k == "ok" and "short" in p and k0 == "ok" and kind_of(k, r) != kind_of(k0, r0):
                ctx.hist["dsf-load:short-read-changes-result:%s->%s at %s" % (kind_of(k0, r0), kind_of(k, r), ref.log[p["short"][0]])] += 1
    answers = ask_model(ctx, [r[0] for r in reqs]) if reqs else None
    if answers is None:
        ctx.notes.append("dsf_tie.run_load_faults: model driver unavailable, tie skipped")
        return ncases
    if any(a == "bad-op" for a in answers):
        ctx.notes.append("dsf_tie.run_load_faults: the driver does not know `dsf op=loadm` yet; tie skipped")
        return ncases
    for (line, impl, kind, desc), ans in zip(reqs, answers):
        mk = None
        if ans.startswith("ok kind="):
            v = ans.split(" ")[1][5:]
            mk = {"notag": "none", "nov2": "none"}.get(v, v.split(":")[0])
            ans = "ok " + ans.split(" ", 2)[2]
        _cmp(ctx, "dsf load", desc, ans, impl)
        if mk != kind:
            ctx.disagree("dsf load: what was loaded", desc, model=str(mk), impl=str(kind))
    return ncases
