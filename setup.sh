#!/bin/bash
# offline build of the Lean library and the native correspondence driver
set -e
cd "$(dirname "$0")"
export PATH="/opt/veriftools/lean/bin:$PATH"
/venv/bin/python harness/extract.py
cd lean
lake build
lake build mdriver
